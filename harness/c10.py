"""C10 Trade and runner accounting follows the real state of the orders"""
import datetime as _dt
from symx.run import Harness
from symx import core
from symx.shims import ClockShim
from flumine.order.order import OrderStatus
from flumine.order.orderpackage import OrderPackageType
from flumine.order.trade import Trade, TradeStatus
from flumine.strategy.runnercontext import RunnerContext
from . import common as cm
from . import simstate as ss
from . import lifecycle as lc

S = OrderStatus
T_LO = 1_600_000_000 * 10**6
T_HI = 1_900_000_000 * 10**6


def _secs(a, b):
    """(a - b) in seconds for SymTime / datetime"""
    d = a - b
    return d.total_seconds()


def h10a(c):
    """BaseStrategy.validate_order refuses exactly when max_trade_count / max_live_trade_count / the cool-downs say so, with
    the limits, multi_order_trades, reset_seconds, place_reset_seconds and the clock symbolic"""
    with cm.config_set(simulated=True):
        multi = c.choose("multi_order_trades", [False, True])
        max_t = c.int("max_trade_count", 0, 5)
        max_l = c.int("max_live_trade_count", 0, 5)
        fl, (client,), (strategy,) = cm.new_sim(strategy_kwargs=dict(max_trade_count=max_t, max_live_trade_count=max_l, multi_order_trades=multi))
        n_tr = c.choose("trades_placed", [0, 1, 2, 3])
        n_live = c.choose("live_trades", list(range(0, n_tr + 1)))
        rc = strategy.get_runner_context(cm.MID, 1, 0)
        rc.trades = ["t%d" % i for i in range(n_tr)]
        rc.live_trades = ["t%d" % i for i in range(n_live)]
        which = c.choose("order_trade", ["live", "placed-not-live", "new"])
        if which == "live" and n_live == 0 or which == "placed-not-live" and n_tr == n_live:
            c.assume(False)
        reset_s = c.cents("reset_seconds", 0, 100000)
        place_s = c.cents("place_reset_seconds", 0, 100000)
        tr = Trade(cm.MID, 1, 0, strategy, reset_seconds=reset_s, place_reset_seconds=place_s)
        tr.id = {"live": "t0", "placed-not-live": "t%d" % (n_tr - 1), "new": "fresh"}[which]
        order = tr.create_order("BACK", cm.LimitOrder(2.0, 2.0))
        now = c.time_us("now", T_LO, T_HI)
        has_reset = c.choose("has_reset", [False, True])
        has_placed = c.choose("has_placed", [False, True])
        if has_reset:
            t_reset = c.time_us("last_reset", T_LO, T_HI)
            c.assume(t_reset <= now)
            rc.datetime_last_reset = t_reset
        if has_placed:
            t_placed = c.time_us("last_placed", T_LO, T_HI)
            c.assume(t_placed <= now)
            rc.datetime_last_placed = t_placed
        ClockShim.now = now
        with c.guard("validate_order"):
            ok = strategy.validate_order(rc, order)
        c.observe("accepted", ok)
        in_live = which == "live"
        in_trades = which != "new"
        cool_reset = (_secs(now, t_reset) < reset_s) if has_reset else False
        cool_place = (_secs(now, t_placed) < place_s) if has_placed else False
        over_trades = c.Or(c.And(n_tr >= max_t, not in_trades), n_tr > max_t)
        over_live = c.Or(c.And(n_live >= max_l, not in_live), n_live > max_l)
        refuse = c.Or(cool_reset, cool_place, over_trades, over_live)
        if multi and in_live:
            refuse = False
        c.tag("multi", multi); c.tag("which", which)
        if ok:
            c.cover("accepted")
            c.ob("accepted=>limits-allow", c.Not(refuse), cool_reset=str(has_reset), cool_place=str(has_placed))
        else:
            c.cover("refused")
            c.ob("refused=>some-limit-says-so", refuse)


def h10b_sim(c, n=2):
    """recount after a response handled by the real SimulatedExecution (C12 worlds)"""
    from .c12 import h12_sim
    w = {}

    class Tap(object):
        def __init__(self, c_):
            object.__setattr__(self, "_c", c_)

        def __getattr__(self, k):
            return getattr(self._c, k)

        def ob(self, name, cond, **tags):
            if name.startswith("no-exception"):
                self._c.ob(name, cond, **tags)

    import flumine.simulation.simulation as simmod
    h12_sim(Tap(c), n=n)


def _sim_history(c, K, recount=True, coherence=False, handicaps=(0, -1.5)):
    """K-step histories through the public API in simulation: placements (single, extra order in a trade, inside `with trade:`),
    package processing, fills, cancels, runner removal"""
    multi = c.choose("multi_order_trades", [False, True])
    max_l = c.choose("max_live_trade_count", [1, 2])
    if coherence:
        fl, (client0, client), (strategy,) = cm.new_sim(n_clients=2, strategy_kwargs=dict(multi_order_trades=multi, max_live_trade_count=max_l, max_trade_count=3))
        use = c.choose("placing_client", ["default", "second"])
        if use == "default":
            client = client0
    else:
        fl, (client,), (strategy,) = cm.new_sim(strategy_kwargs=dict(multi_order_trades=multi, max_live_trade_count=max_l, max_trade_count=3))
    mw = fl._market_middleware[0]
    hcap = c.choose("handicap", list(handicaps))  # (a handicap / line-market runner is a different runner context)
    bk = cm.book([cm.runner(1, handicap=hcap, atb=[{"price": 1.5, "size": 100.0}], atl=[{"price": 4.0, "size": 100.0}]), cm.runner(2)], version=7)
    market = cm.add_market(fl, bk)
    mw(market)
    placed, trades = [], []
    if c.choose("start_with_resting_order", [False, True]):
        # history prefix summarised: one order of an earlier trade already rests executable at the exchange
        o0, _ = ss.resting_limit(c, "seed", fl, market, strategy, 90, status=S.EXECUTABLE, price=2.0, persistence="LAPSE", max_frags=0,
                                 allow_cancelled=False, side="BACK", client=client, handicap=hcap)
        c.assume(o0.order_type.size >= 2)
        c.assume(o0.order_type.size <= 100)
        placed.append(o0)
        trades.append(o0.trade)
    rec = lc.Recorder()
    with rec:
        for k in range(K):
            t_before = _dt.datetime.utcnow()
            n_tr_log = len(rec.trades)
            act = c.choose("action%d" % k, ["place-new-trade", "place-same-trade", "place-in-with-trade", "process-packages", "fill-all", "fill-first", "fill-last", "cancel-all",
                                            "suspend-lapse", "remove-runner", "place-same-order-again"] + (["replace-all", "market-settles"] if coherence else []))
            c.tag("a%d" % k, act)
            with c.guard("step%d:%s" % (k, act)):
                if act in ("place-new-trade", "place-same-trade", "place-in-with-trade"):
                    if act == "place-same-trade" and trades:
                        tr = trades[-1]
                    else:
                        tr = Trade(cm.MID, 1, hcap, strategy)
                    o = tr.create_order("BACK", cm.LimitOrder(2.0, 5.0))
                    if act == "place-in-with-trade":
                        with tr:
                            ok = market.place_order(o, client=client)
                            o2 = tr.create_order("LAY", cm.LimitOrder(3.0, 5.0))
                            ok2 = market.place_order(o2, client=client)
                            if ok2:
                                placed.append(o2)
                    else:
                        ok = market.place_order(o, client=client)
                    if ok:
                        placed.append(o)
                        if tr not in trades:
                            trades.append(tr)
                        c.cover("placed")
                        rc = strategy.get_runner_context(cm.MID, 1, hcap)
                        c.ob("step%d.placement-starts-the-place-cool-down" % k, rc.datetime_last_placed is not None and rc.datetime_last_placed >= t_before)
                        c.ob("step%d.live-trades<=max" % k, len(rc.live_trades) <= max_l, live=len(rc.live_trades))
                        c.ob("step%d.trades<=max" % k, len(rc.trades) <= 3)
                    else:
                        c.cover("refused")
                elif act == "market-settles":
                    # the closing book is applied to the blotter (results handed to the orders): orders that are not complete stay in the live list
                    cb = cm.book([cm.runner(1, handicap=hcap, status="WINNER"), cm.runner(2, status="LOSER")], version=30 + k, status="CLOSED", pt_ms=cm.T0_MS + 1000 * (k + 1),
                                 md=cm.market_definition(status="CLOSED"))
                    market.blotter.process_closed_market(market, cb)
                    c.cover("settled")
                elif act == "place-same-order-again":
                    # an order object can be placed once: a second attempt (whatever became of the first) is rejected and changes nothing
                    if placed:
                        from flumine.exceptions import OrderError
                        sig0 = lc.views_sig(market.blotter)
                        try:
                            market.place_order(placed[-1], client=client)
                            c.ob("step%d.second-placement-of-the-same-order-rejected" % k, False, status=placed[-1].status.name, bet_id=placed[-1].bet_id)
                        except OrderError:
                            c.ob("step%d.rejected-placement-changes-no-view" % k, lc.views_sig(market.blotter) == sig0)
                            c.cover("second-placement-rejected")
                elif act == "process-packages":
                    while fl.handler_queue:
                        client.execution.handler(fl.handler_queue.pop(0))
                elif act in ("fill-all", "fill-first", "fill-last"):
                    lv = list(market.blotter.live_orders)
                    for o in (lv[:1] if act == "fill-first" else lv[-1:] if act == "fill-last" else lv):
                        if o.status in (S.EXECUTABLE, S.CANCELLING, S.UPDATING, S.REPLACING):
                            sim = o.simulated
                            sim.matched = sim.matched + [[cm.T0_MS, o.order_type.price, sim.size_remaining]]
                            sim.size_matched = cm.total([f[2] for f in sim.matched])
                            c.cover("filled")
                elif act == "cancel-all":
                    for o in list(market.blotter.live_orders):
                        if o.status == S.EXECUTABLE:
                            market.cancel_order(o)
                elif act == "replace-all":
                    for o in list(market.blotter.live_orders):
                        if o.status == S.EXECUTABLE:
                            market.replace_order(o, [2.5, 2.6, 2.7, 2.8, 2.9][k])
                elif act == "suspend-lapse":
                    b2 = cm.book([cm.runner(1, handicap=hcap), cm.runner(2)], version=8 + k, status="SUSPENDED", pt_ms=cm.T0_MS + 1000 * (k + 1))
                    market(b2); mw(market)
                    b3 = cm.book([cm.runner(1, handicap=hcap, atb=[{"price": 1.5, "size": 100.0}], atl=[{"price": 4.0, "size": 100.0}]), cm.runner(2)], version=8 + k, pt_ms=cm.T0_MS + 1000 * (k + 1) + 1)
                    market(b3); mw(market)
                else:
                    b2 = cm.book([cm.runner(1, handicap=hcap, status="REMOVED", adjustment_factor=10.0), cm.runner(2)], version=20 + k, pt_ms=cm.T0_MS + 1000 * (k + 1))
                    market(b2); mw(market)
                fl._process_simulated_orders(market)
            if recount:
                lc.recount_runner_context(c, strategy, market, tag="step%d" % k)
                if any(new == lc.TradeStatus.COMPLETE for (_t, _old, new) in rec.trades[n_tr_log:]):
                    rc = strategy.get_runner_context(cm.MID, 1, hcap)
                    c.ob("step%d.completed-trade-starts-the-reset-cool-down" % k, rc.datetime_last_reset is not None and rc.datetime_last_reset >= t_before,
                         live=len(rc.live_trades))
                    c.cover("trade-completed")
            if coherence:
                lc.blotter_coherence(c, market, list(market.blotter), tag="step%d" % k)
                for o in placed:
                    c.ob("step%d.placed-order-in-blotter" % k, o.id in market.blotter and market.blotter[o.id] is o)
                for o in market.blotter:
                    # every order (also a replacement created by the execution layer) belongs to the client that placed its trade
                    c.ob("step%d.order-listed-under-placing-client" % k, o.client is client and any(x is o for x in market.blotter._client_orders[client]),
                         client=getattr(o.client, "username", None))
    # not locked out: all orders complete => a fresh trade is accepted again (no cool-down configured)
    if recount and placed and all(o.complete for o in market.blotter):
        rc = strategy.get_runner_context(cm.MID, 1, hcap)
        if len(rc.trades) < 3:
            probe = Trade(cm.MID, 1, hcap, strategy).create_order("BACK", cm.LimitOrder(2.0, 5.0))
            c.ob("not-locked-out-after-all-complete", strategy.validate_order(rc, probe) is True, live=len(rc.live_trades))
            c.cover("all-complete")
    return rec, market, strategy


def h10e(c):
    """a trade that completed while a request for one of its orders was in flight, the late response applied to it, and the trade then
    re-used for a further order whose placement ends in every symbolic way (rests, fails, fills at once, rests then is cancelled in full):
    the trade is complete exactly when all its orders are, never left pending, the runner is not locked"""
    with cm.config_set(simulated=True):
        fl, (client,), (strategy,) = cm.new_sim(strategy_kwargs=dict(max_live_trade_count=1, max_trade_count=5, multi_order_trades=c.choose("multi_order_trades", [False, True])))
        mw = fl._market_middleware[0]
        bk = cm.book([cm.runner(1, atb=[{"price": 1.5, "size": 100.0}], atl=[{"price": 4.0, "size": 100.0}]), cm.runner(2)], version=7)
        market = cm.add_market(fl, bk)
        mw(market)
        T = Trade(cm.MID, 1, 0, strategy)
        o1 = T.create_order("BACK", cm.LimitOrder(2.0, 5.0))

        def run_queue():
            while fl.handler_queue:
                client.execution.handler(fl.handler_queue.pop(0))
            fl._process_simulated_orders(market)

        with c.guard("first-order"):
            market.place_order(o1)
            run_queue()
            req = c.choose("request_in_flight", ["cancel", "update", "replace", "none"])
            if req == "cancel":
                market.cancel_order(o1)
            elif req == "update":
                market.update_order(o1, "PERSIST")
            elif req == "replace":
                market.replace_order(o1, 2.5)
            # the order completes while that request is in flight
            sim = o1.simulated
            sim.matched = sim.matched + [[cm.T0_MS, 2.0, sim.size_remaining]]
            sim.size_matched = cm.total([f[2] for f in sim.matched])
            fl._process_simulated_orders(market)
            c.ob("trade-complete-after-first-order", T.status == lc.TradeStatus.COMPLETE)
            run_queue()  # the late response
        lc.recount_runner_context(c, strategy, market, tag="after-late-response")
        how = c.choose("second_order_placed", ["directly", "inside-with-trade"])
        outcome = c.choose("second_order_outcome", ["rests", "placement-fails", "fills-at-once", "rests-then-cancelled"])
        c.tag("request", req); c.tag("outcome", outcome)
        with c.guard("second-order"):
            o2 = T.create_order("BACK", cm.LimitOrder(2.0 if outcome != "fills-at-once" else 1.5, 5.0))
            if how == "directly":
                ok = market.place_order(o2)
            else:
                with T:
                    ok = market.place_order(o2)
            c.ob("re-used-trade.order-accepted", ok is True)
            if ok:
                if outcome == "placement-fails":
                    market.market_book.status = "SUSPENDED"
                run_queue()
                market.market_book.status = "OPEN"
                if outcome == "rests-then-cancelled":
                    market.cancel_order(o2)
                    run_queue()
                c.cover("trade-reused")
        lc.recount_runner_context(c, strategy, market, tag="end")
        if all(o.complete for o in market.blotter):
            rc = strategy.get_runner_context(cm.MID, 1, 0)
            probe = Trade(cm.MID, 1, 0, strategy).create_order("BACK", cm.LimitOrder(2.0, 5.0))
            c.ob("not-locked-out-after-all-complete", strategy.validate_order(rc, probe) is True, live=len(rc.live_trades), trade_status=T.status.name)
            c.cover("all-complete")


def h10f(c, n=2):
    """crash / restart (C11 world): the runner accounting of the restarted instance (trades and live trades charged) equals that of the
    instance that placed the bets, whatever state the adopted bets are in (resting, partly matched, complete)"""
    from .c11 import h11b
    from .c06 import _Only
    h11b(_Only(c, ("live-trade-count", "trade-count", "no-accounting-for-untouched", "no-exception")), n=n)


def h10c(c, K=3):
    """K-step public-API histories in simulation with the recount after every step"""
    with cm.config_set(simulated=True):
        _sim_history(c, K)


def h10b_live(c, n=1):
    """recount after a response handled by the real BetfairExecution against the exchange double"""
    with cm.config_set(simulated=False):
        kind = c.choose("kind", lc.KINDS)
        w = lc.live_handler_step(c, kind, n=n, allow_misorder=False)
        lc.recount_runner_context(c, w["strategy"], w["market"])
        c.cover("handled")


def h10b_sim2(c, n=2):
    """recount after a response handled by the real SimulatedExecution with orders completing in flight"""
    with cm.config_set(simulated=True):
        fl, (client,), (strategy,) = cm.new_sim()
        mw = fl._market_middleware[0]
        kind = c.choose("kind", [OrderPackageType.CANCEL, OrderPackageType.UPDATE, OrderPackageType.REPLACE])
        c.tag("kind", kind.name)
        bk = cm.book([cm.runner(1, atb=[{"price": 1.5, "size": 100.0}], atl=[{"price": 4.0, "size": 100.0}]), cm.runner(2)], version=7)
        market = cm.add_market(fl, bk)
        mw(market)
        orders = []
        for i in range(n):
            o, d = ss.resting_limit(c, "o%d" % i, fl, market, strategy, 100 + i, status=lc.TRANSIENT[kind], price=2.0, persistence="LAPSE",
                                    max_frags=0, allow_cancelled=False, side="BACK")
            if kind == OrderPackageType.UPDATE:
                o.order_type.persistence_type = "PERSIST"
            elif kind == OrderPackageType.REPLACE:
                o.update_data["new_price"] = c.choose("new_price%d" % i, [3.0, 1.01])
            else:
                o.update_data["size_reduction"] = None
            orders.append(o)
        pkg = ss.package(fl, market, orders, kind)
        for i, o in enumerate(orders):
            how = c.choose("o%d_meanwhile" % i, ["nothing", "matched", "lapsed"])
            sim = o.simulated
            if how == "matched":
                sim.matched = sim.matched + [[cm.T0_MS, 2.0, sim.size_remaining]]
                sim.size_matched = cm.total([f[2] for f in sim.matched])
            elif how == "lapsed":
                sim.size_lapsed = sim.size_remaining
        with lc.Recorder() as rec:
            fl._process_simulated_orders(market)
            lc.recount_runner_context(c, strategy, market, tag="before-response")
            market.market_book.status = c.choose("market_status_at_response", ["OPEN", "SUSPENDED"])
            with c.guard("handler"):
                client.execution.handler(pkg)
                fl._process_simulated_orders(market)
        lc.recount_runner_context(c, strategy, market, tag="after-response")
        c.cover("handled")


def h10d(c):
    """live, async placement: the REST answer carries no bet id; the first order-stream message for the bet says EXECUTABLE or
    already EXECUTION_COMPLETE (fully matched / killed before the first update); recount afterwards"""
    with cm.config_set(simulated=False, async_place_orders=True):
        ex = lc.ExchangeDouble()
        fl, client, (strategy,) = cm.new_live(exchange=ex, strategy_kwargs=dict(max_live_trade_count=1))
        market = fl._add_market(cm.MID, cm.book([cm.runner(1), cm.runner(2)], version=7))
        ex.script["place"] = lambda ins, attempt: lc.response(place_instruction_reports=[lc.place_report("SUCCESS", "PENDING", None) for _ in ins])
        o = cm.mk_limit(strategy, "BACK", 2.0, 10.0)
        with c.guard("place"):
            ok = market.place_order(o)
        c.ob("async.accepted-and-pending", ok is True and o.status == S.PENDING and o.bet_id is None)
        first = c.choose("first_stream_status", ["EXECUTABLE", "EXECUTION_COMPLETE", "EXPIRED"])
        matched = 10.0 if first == "EXECUTION_COMPLETE" else 0.0
        co = cm.current_order(o.customer_order_ref, "4711", size=10.0, status=first, size_matched=matched, size_remaining=10.0 if first == "EXECUTABLE" else 0.0,
                              average_price_matched=2.0 if matched else 0.0, size_lapsed=10.0 if first == "EXPIRED" else 0.0)
        with c.guard("stream"):
            fl._process_current_orders(cm.current_orders_event(client, [co]))
        c.ob("async.bet-id-picked-up", o.bet_id == "4711")
        c.ob("async.status-follows-stream", o.status == (S.EXECUTABLE if first == "EXECUTABLE" else S.EXECUTION_COMPLETE), status=o.status.name)
        lc.recount_runner_context(c, strategy, market)
        if first != "EXECUTABLE":
            rc = strategy.get_runner_context(*o.lookup)
            probe = Trade(cm.MID, 1, 0, strategy).create_order("BACK", cm.LimitOrder(2.0, 5.0))
            c.ob("async.not-locked-out-after-complete", strategy.validate_order(rc, probe) is True)
            c.cover("complete-on-first-message")
        c.cover("async")


HARNESSES = [
    Harness("H10d", h10d, pattern="P3 short history", requires=["async", "complete-on-first-message"]),
    Harness("H10a", h10a, pattern="P1 kernel-with-oracle", clock_modules=("flumine.strategy.runnercontext",), requires=["accepted", "refused"]),
    Harness("H10b-sim", h10b_sim2, quick=dict(n=2), pattern="P2 inductive step", requires=["handled"]),
    Harness("H10b-live", h10b_live, quick=dict(n=1), thorough=dict(n=2), pattern="P5 + recount", requires=["handled"], max_paths=(300000, 3000000)),
    Harness("H10f", h10f, quick=dict(n=2), thorough=dict(n=3), pattern="P4 relational (pre-crash vs restarted instance)", requires=["restart"], selfcheck=False,
            max_paths=(400000, 5000000), wall_s=(300, 3000)),
    Harness("H10e", h10e, pattern="P5 (late response on a completed trade) + P3", requires=["trade-reused", "all-complete"], selfcheck=False),
    Harness("H10c", h10c, quick=dict(K=3), thorough=dict(K=4), pattern="P3 bounded history", requires=["placed", "refused", "filled", "all-complete", "trade-completed"],
            max_paths=(300000, 3000000), wall_s=(300, 3000)),
]
META = {"assumptions": ["trades explicitly flagged pending_orders are outside (property)"]}
