"""C04 Simulated order sizes are conserved"""
from symx.run import Harness
from flumine.order.order import OrderStatus
from flumine.order.orderpackage import OrderPackageType
from . import common as cm
from . import simstate as ss

STEPS = ["traded", "suspend", "sp", "removal", "cancel", "update", "replace"]


def h04a(c, steps=STEPS, max_frags=1):
    """Inv-preserving step: a resting LIMIT order in an arbitrary state, one real operation (market update through the
    real SimulatedMiddleware, or a cancel/update/replace response through the real SimulatedExecution), then the real
    completion sweep; conservation, non-negativity, complete <=> nothing remains, matched monotone except on void"""
    with cm.config_set(simulated=True):
        step = c.choose("step", steps)
        c.tag("step", step)
        fl, (client,), (strategy,) = cm.new_sim()
        mw = fl._market_middleware[0]
        tp = 2.0
        tv0 = c.cents("tv0", 0, 1000000)
        bk1 = cm.book([cm.runner(1, tv=[{"price": tp, "size": tv0}]), cm.runner(2)], version=7)
        market = cm.add_market(fl, bk1)
        mw(market)  # initialises the runner analytics with the previous traded ladder
        status = {"cancel": OrderStatus.CANCELLING, "update": OrderStatus.UPDATING, "replace": OrderStatus.REPLACING}.get(step)
        order, d = ss.resting_limit(c, "o", fl, market, strategy, 100, status=status, max_frags=max_frags)
        sim = order.simulated
        size = d["size"]
        m_before = sim.size_matched
        c.tag("part_cancelled", not isinstance(d["cancelled"], int))
        orders = [order]
        if step in ("traded", "suspend", "sp", "removal"):
            r1 = cm.runner(1, tv=[{"price": tp, "size": tv0}])
            bk2 = cm.book([r1, cm.runner(2)], version=7, pt_ms=cm.T0_MS + 1000)
            if step == "traded":
                delta = c.cents("traded_delta", 0, 2000000)
                r1.ex.traded_volume = [{"price": tp, "size": tv0 + delta}]
                sim._piq = c.cents("piq", 0, 1000000)
            elif step == "suspend":
                bk2.status = c.choose("status2", ["SUSPENDED", "OPEN"])
                bk2.version = c.choose("version2", [7, 8])
            elif step == "sp":
                bk2.bsp_reconciled = True
                bk2.inplay = True
                if c.choose("sp_available", [True, False]):
                    r1.sp = cm.SP(actualSP=c.pick("actual_sp", [1.01, 1.5, 2.0, 7.4, 1000.0]))
                else:
                    r1.sp = cm.SP(actualSP="NaN")
            elif step == "removal":
                which = c.choose("removed_runner", [1, 2])
                af = c.choose("adjustment_factor", [None, 1.0, 2.5, 20.0])
                tgt = r1 if which == 1 else bk2.runners[1]
                tgt.status = "REMOVED"
                tgt.adjustment_factor = af
                c.tag("removed_own_runner", which == 1)
            with c.guard("market-update"):
                market(bk2)
                mw(market)
        else:
            mstat = c.choose("market_status_at_execution", ["OPEN", "SUSPENDED"])
            bk1.status = mstat
            if step == "cancel":
                red = c.cents("size_reduction", 1, 2000000) if c.choose("partial", [True, False]) else None
                order.update_data["size_reduction"] = red
                pkg = ss.package(fl, market, [order], OrderPackageType.CANCEL)
            elif step == "update":
                newp = c.choose("new_persistence", ["LAPSE", "PERSIST", "MARKET_ON_CLOSE"])
                order.order_type.persistence_type = newp
                bk1.market_definition.persistence_enabled = c.choose("persistence_enabled", [True, False])
                pkg = ss.package(fl, market, [order], OrderPackageType.UPDATE)
            else:
                order.update_data["new_price"] = c.pick("new_price", [1.01, 2.0, 5.0, 1000.0])
                bk1.runners[0].ex.available_to_back = [{"price": c.pick("atb0", [1.5, 4.0]), "size": c.cents("atb0s", 1, 1000000)}]
                bk1.runners[0].ex.available_to_lay = [{"price": c.pick("atl0", [4.5, 8.0]), "size": c.cents("atl0s", 1, 1000000)}]
                mv = c.choose("replace_market_version", [None, 7, 6])
                pkg = ss.package(fl, market, [order], OrderPackageType.REPLACE, market_version=mv)
            with c.guard("execution"):
                client.execution.handler(pkg)
            orders = list(market.blotter)
        with c.guard("completion-sweep"):
            fl._process_simulated_orders(market)
        lay_to_sp = step == "sp" and d["side"] == "LAY" and d["persistence"] == "MARKET_ON_CLOSE"
        for i, o in enumerate(orders):
            tag = "order" if o is order else "replacement"
            ss.conservation_obs(c, tag, o, o.order_type.size, total_only=lay_to_sp)
            rem0 = o.simulated.size_remaining == 0
            c.ob("%s.complete<=>nothing-remains" % tag, o.complete == rem0 if not isinstance(rem0, bool) else o.complete == rem0)
            c.observe("%s.remaining" % tag, o.simulated.size_remaining)
            c.observe("%s.complete" % tag, o.complete)
        if len(orders) > 1:
            c.cover("replacement-created")
        voided_own = step == "removal" and c.is_true(sim.size_voided > 0)
        if voided_own:
            c.cover("voided")
        else:
            c.ob("matched-non-decreasing", sim.size_matched >= m_before)
        if c.is_true(sim.size_lapsed > 0):
            c.cover("lapsed")
        if step == "traded" and c.is_true(sim.size_matched > m_before):
            c.cover("passive-fill")
        if step == "cancel" and c.is_true(sim.size_cancelled > d["cancelled"]):
            c.cover("cancelled")
        if step == "sp" and c.is_true(sim.size_matched > m_before):
            c.cover("sp-matched")


HARNESSES = [
    Harness("H04a", h04a, quick=dict(max_frags=1), thorough=dict(max_frags=2), pattern="P2 inductive step",
            requires=["replacement-created", "voided", "lapsed", "passive-fill", "cancelled", "sp-matched"], wall_s=(300, 3000),
            max_paths=(150000, 3000000),
            outside=["bet-target-size orders (flumine raises NotImplementedError)", "more than 2 pre-existing fragments",
                     "placement branches: covered by C05 H05a (conservation obligation at the response)"]),
]
META = {"assumptions": ["Inv(pre): buckets >= 0, 2dp, size_matched = sum of fragments, sum of buckets < size (something remains)"]}
