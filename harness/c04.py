"""C04 Simulated order sizes are conserved"""
from symx.run import Harness
from flumine.exceptions import OrderUpdateError
from flumine.order.order import OrderStatus
from flumine.order.orderpackage import OrderPackageType
from . import common as cm
from . import simstate as ss

STEPS = ["traded", "suspend", "sp", "removal", "cancel", "update", "replace"]


def h04a(c, steps=STEPS, max_frags=1):
    """Inv-preserving step: a resting LIMIT order in an arbitrary state, one real operation (market update through the
    real SimulatedMiddleware, or a cancel/update/replace response through the real SimulatedExecution), then the real
    completion sweep; conservation, non-negativity, complete <=> nothing remains, matched monotone except on void"""
    with cm.config_set(simulated=True):
        step = c.choose("step", steps)
        c.tag("step", step)
        fl, (client,), (strategy,) = cm.new_sim()
        mw = fl._market_middleware[0]
        tp = 2.0
        tv0 = c.cents("tv0", 0, 1000000)
        bk1 = cm.book([cm.runner(1, tv=[{"price": tp, "size": tv0}]), cm.runner(2)], version=7)
        market = cm.add_market(fl, bk1)
        mw(market)  # initialises the runner analytics with the previous traded ladder
        status = {"cancel": OrderStatus.CANCELLING, "update": OrderStatus.UPDATING, "replace": OrderStatus.REPLACING}.get(step)
        order, d = ss.resting_limit(c, "o", fl, market, strategy, 100, status=status, max_frags=max_frags)
        sim = order.simulated
        size = d["size"]
        m_before = sim.size_matched
        c.tag("part_cancelled", not isinstance(d["cancelled"], int))
        orders = [order]
        if step in ("traded", "suspend", "sp", "removal"):
            r1 = cm.runner(1, tv=[{"price": tp, "size": tv0}])
            bk2 = cm.book([r1, cm.runner(2)], version=7, pt_ms=cm.T0_MS + 1000)
            if step == "traded":
                delta = c.cents("traded_delta", 0, 2000000)
                r1.ex.traded_volume = [{"price": tp, "size": tv0 + delta}]
                sim._piq = c.cents("piq", 0, 1000000)
            elif step == "suspend":
                bk2.status = c.choose("status2", ["SUSPENDED", "OPEN"])
                bk2.version = c.choose("version2", [7, 8])
            elif step == "sp":
                bk2.bsp_reconciled = True
                bk2.inplay = True
                if c.choose("sp_available", [True, False]):
                    r1.sp = cm.SP(actualSP=c.pick("actual_sp", [1.01, 1.5, 2.0, 7.4, 1000.0]))
                else:
                    r1.sp = cm.SP(actualSP="NaN")
            elif step == "removal":
                which = c.choose("removed_runner", [1, 2])
                af = c.choose("adjustment_factor", [None, 1.0, 2.5, 20.0])
                tgt = r1 if which == 1 else bk2.runners[1]
                tgt.status = "REMOVED"
                tgt.adjustment_factor = af
                c.tag("removed_own_runner", which == 1)
            with c.guard("market-update"):
                market(bk2)
                mw(market)
        else:
            mstat = c.choose("market_status_at_execution", ["OPEN", "SUSPENDED"])
            bk1.status = mstat
            if step == "cancel":
                red = c.cents("size_reduction", 1, 2000000) if c.choose("partial", [True, False]) else None
                order.update_data["size_reduction"] = red
                pkg = ss.package(fl, market, [order], OrderPackageType.CANCEL)
            elif step == "update":
                newp = c.choose("new_persistence", ["LAPSE", "PERSIST", "MARKET_ON_CLOSE"])
                order.order_type.persistence_type = newp
                bk1.market_definition.persistence_enabled = c.choose("persistence_enabled", [True, False])
                pkg = ss.package(fl, market, [order], OrderPackageType.UPDATE)
            else:
                order.update_data["new_price"] = c.pick("new_price", [1.01, 2.0, 5.0, 1000.0])
                bk1.runners[0].ex.available_to_back = [{"price": c.pick("atb0", [1.5, 4.0]), "size": c.cents("atb0s", 1, 1000000)}]
                bk1.runners[0].ex.available_to_lay = [{"price": c.pick("atl0", [4.5, 8.0]), "size": c.cents("atl0s", 1, 1000000)}]
                mv = c.choose("replace_market_version", [None, 7, 6])
                pkg = ss.package(fl, market, [order], OrderPackageType.REPLACE, market_version=mv)
            with c.guard("execution"):
                client.execution.handler(pkg)
            orders = list(market.blotter)
        with c.guard("completion-sweep"):
            fl._process_simulated_orders(market)
        lay_to_sp = step == "sp" and d["side"] == "LAY" and d["persistence"] == "MARKET_ON_CLOSE"
        for i, o in enumerate(orders):
            tag = "order" if o is order else "replacement"
            ss.conservation_obs(c, tag, o, o.order_type.size, total_only=lay_to_sp)
            rem0 = o.simulated.size_remaining == 0
            c.ob("%s.complete<=>nothing-remains" % tag, o.complete == rem0 if not isinstance(rem0, bool) else o.complete == rem0)
            c.observe("%s.remaining" % tag, o.simulated.size_remaining)
            c.observe("%s.complete" % tag, o.complete)
        if len(orders) > 1:
            c.cover("replacement-created")
        voided_own = step == "removal" and c.is_true(sim.size_voided > 0)
        if voided_own:
            c.cover("voided")
        else:
            c.ob("matched-non-decreasing", sim.size_matched >= m_before)
        if c.is_true(sim.size_lapsed > 0):
            c.cover("lapsed")
        if step == "traded" and c.is_true(sim.size_matched > m_before):
            c.cover("passive-fill")
        if step == "cancel" and c.is_true(sim.size_cancelled > d["cancelled"]):
            c.cover("cancelled")
        if step == "sp" and c.is_true(sim.size_matched > m_before):
            c.cover("sp-matched")


VARIANTS = {"default": {}, "full-match": dict(client=dict(simulated_full_match=True)), "bpe-off": dict(client=dict(best_price_execution=False)),
            "no-isolation": dict(config=dict(simulated_strategy_isolation=False)), "available-prices": dict(config=dict(simulation_available_prices=True))}


def h04b(c, K=2, focus="C04", variants=("default", "full-match", "bpe-off", "no-isolation", "available-prices"), actions=None, book_events=None):
    """K-update histories through the real FlumineSimulation._process_market_books (zero latency) with symbolic books (sizes,
    traded volume, suspension / version change, SP reconciliation, runner removal), a symbolic script of strategy actions and a
    symbolic simulation configuration (full-match mode, best-price execution, strategy isolation, available-prices matching); an
    auditing strategy checks every order at every callback (process_orders and process_market_book):
    C04 focus: the size invariants of every limit order;  C03 focus: legal transitions and finality (recorded at the transition)"""
    from flumine.events import events
    from . import lifecycle as lc
    variant = c.choose("configuration", list(variants))
    V = VARIANTS[variant]
    c.tag("configuration", variant)
    cfg = dict(simulated=True, place_latency=0.0, cancel_latency=0.0, update_latency=0.0, replace_latency=0.0)
    cfg.update(V.get("config", {}))
    with cm.config_set(**cfg), lc.Recorder() as rec:
        state = {"k": 0, "n": 0, "removed": False}

        def finality(tag):
            for o, m in rec.completed:
                if state["removed"] and o.selection_id == 1:
                    continue  # the property's own exception: the bet is voided because its runner was removed
                c.ob("%s.reported-complete=>matched-size-final" % tag, o.size_matched == m, kind=o.order_type.ORDER_TYPE.name)

        def audit(market, where):
            tag = "u%d.%s" % (state["k"], where)
            finality(tag)
            if focus != "C04":
                state["n"] += len(market.blotter._orders)
                return
            for o in market.blotter:
                if o.order_type.ORDER_TYPE.name != "LIMIT" or o.status == OrderStatus.VIOLATION:
                    continue
                sm = o.simulated
                tot = sm.size_matched + sm.size_remaining + sm.size_cancelled + sm.size_lapsed + sm.size_voided
                c.ob("%s.conservation" % tag, tot == o.order_type.size)
                c.ob("%s.remaining>=0" % tag, sm.size_remaining >= 0)
                c.ob("%s.matched>=0" % tag, sm.size_matched >= 0)
                if not (o.side == "LAY" and o.order_type.persistence_type == "MARKET_ON_CLOSE"):
                    # (a LAY limit order carried to the starting price is re-sized to preserve its liability: the property's exception)
                    c.ob("%s.matched<=requested" % tag, sm.size_matched <= o.order_type.size)
                if o.status != OrderStatus.PENDING:
                    c.ob("%s.complete<=>nothing-remains" % tag, o.complete == (sm.size_remaining == 0) if isinstance(sm.size_remaining == 0, bool) else
                         c.And(c.Implies(o.complete, sm.size_remaining == 0), c.Implies(sm.size_remaining == 0, o.complete)), status=o.status.name)
                state["n"] += 1

        def pmb(strategy, market, market_book):
            audit(market, "process_market_book")
            k = state["k"]
            if state.get("flush"):
                return
            act = c.choose("action%d" % k, list(actions) if actions else ["none", "place-rest", "place-cross", "place-fok", "place-sp", "cancel-part", "cancel-all", "replace", "update"])
            live = [o for o in market.blotter if o.status == OrderStatus.EXECUTABLE and o.bet_id and o.order_type.ORDER_TYPE.name == "LIMIT"]
            if act.startswith("place"):
                side = c.choose("side%d" % k, ["BACK", "LAY"])
                size = c.cents("size%d" % k, 1, 100000)
                if act == "place-rest":
                    o = cm.mk_limit(strategy, side, 2.0, size, persistence=c.choose("persistence%d" % k, ["LAPSE", "MARKET_ON_CLOSE"]))
                elif act == "place-cross":
                    o = cm.mk_limit(strategy, side, 1.5 if side == "BACK" else 3.0, size)
                elif act == "place-sp":
                    o = cm.mk_moc(strategy, side, size) if c.choose("sp_kind%d" % k, ["MOC", "LOC"]) == "MOC" else cm.mk_loc(strategy, side, size, 1.5 if side == "BACK" else 30.0)
                else:
                    mfs = c.cents("min_fill%d" % k, 1, 100000) if c.choose("min_fill_given%d" % k, [False, True]) else None
                    o = cm.mk_limit(strategy, side, 1.5 if side == "BACK" else 3.0, size, tif="FILL_OR_KILL", mfs=mfs)
                market.place_order(o, force=True)
                c.cover("placed")
            elif live:
                o = live[0]
                if act == "cancel-part":
                    red = c.cents("reduction%d" % k, 1, 100000)
                    if c.is_true(red <= o.size_remaining):
                        market.cancel_order(o, red, force=True)
                elif act == "cancel-all":
                    market.cancel_order(o, force=True)
                elif act == "replace":
                    market.replace_order(o, 2.02 if o.order_type.price != 2.02 else 2.04, force=True)
                elif act == "update":
                    market.update_order(o, "PERSIST" if o.order_type.persistence_type != "PERSIST" else "LAPSE", force=True)
                c.cover("amended")
                if o.status != OrderStatus.EXECUTABLE:
                    # a further request while that one is in flight is rejected by the order (the strategy swallows the error)
                    again = c.choose("second_request%d" % k, [None, "cancel-part", "replace"])
                    try:
                        if again == "cancel-part":
                            market.cancel_order(o, c.cents("second_reduction%d" % k, 1, 100000), force=True)
                        elif again == "replace":
                            market.replace_order(o, 2.06, force=True)
                        if again:
                            c.ob("u%d.second-request-rejected" % k, False)
                    except OrderUpdateError:
                        c.cover("second-request-rejected")

        def po(strategy, market, orders):
            audit(market, "process_orders")

        fl, (client,), (strategy,) = cm.new_sim(hooks=dict(process_market_book=pmb, process_orders=po), client_kwargs=V.get("client", {}))
        tv = c.cents("tv0", 0, 100000)
        with fl.simulated_datetime:
            for k in range(K + 1):
                state["k"] = k
                evs = ["open", "traded", "suspended-new-version", "sp-reconciled", "runner-removed"] if k > 0 else ["open", "sp-reconciled"]
                if state.get("sp") is not None:
                    evs.remove("sp-reconciled")  # reconciled once; every later book carries the starting price and is in-play
                if variant == "available-prices" and k > 0:
                    evs.append("back-side-moves-through-2.0")  # two levels at / through the price of the resting BACK orders
                if book_events and k > 0:
                    evs = [e for e in evs if e in book_events]
                ev = c.choose("book%d" % k, evs)
                if ev == "traded":
                    tv = tv + c.cents("traded_delta%d" % k, 1, 200000)
                if ev == "runner-removed":
                    state["removed"] = True
                removed = state["removed"]
                first = c.cents("atb%d" % k, 1, 100000)
                atb_k = [{"price": 1.9, "size": first}]
                if ev == "back-side-moves-through-2.0":
                    atb_k = [{"price": 2.04, "size": first}, {"price": 2.02, "size": c.cents("atb%d_2" % k, 1, 100000)}]
                    c.cover("crossing-book")
                r1 = cm.runner(1, status="REMOVED" if removed else "ACTIVE", adjustment_factor=10.0 if removed else None,
                               atb=atb_k, atl=[{"price": 2.1, "size": c.cents("atl%d" % k, 1, 100000)}],
                               tv=[{"price": 2.0, "size": tv}])
                if ev == "sp-reconciled":
                    state["sp"] = c.pick("actual_sp%d" % k, [1.5, 2.0, 7.4])
                if state.get("sp") is not None:
                    r1.sp = cm.SP(actualSP=state["sp"])
                bk = cm.book([r1, cm.runner(2)], version=7 + (1 if ev == "suspended-new-version" else 0), pt_ms=cm.T0_MS + 1000 * k,
                             status="SUSPENDED" if ev == "suspended-new-version" else "OPEN", bsp_reconciled=state.get("sp") is not None, inplay=state.get("sp") is not None)
                with c.guard("update%d:%s" % (k, ev)):
                    fl._process_market_books(events.MarketBookEvent([bk]))
            # one more (unchanged, open) book so that what was requested at the last update takes effect and is audited
            state["flush"], state["k"] = True, K + 1
            r1 = cm.runner(1, status="REMOVED" if state["removed"] else "ACTIVE", adjustment_factor=10.0 if state["removed"] else None,
                           atb=[{"price": 1.9, "size": 1.0}], atl=[{"price": 2.1, "size": 1.0}], tv=[{"price": 2.0, "size": tv}])
            if state.get("sp") is not None:
                r1.sp = cm.SP(actualSP=state["sp"])
            bk = cm.book([r1, cm.runner(2)], version=7, pt_ms=cm.T0_MS + 1000 * (K + 1), bsp_reconciled=state.get("sp") is not None, inplay=state.get("sp") is not None)
            with c.guard("flush"):
                fl._process_market_books(events.MarketBookEvent([bk]))
        finality("end")
        if focus == "C03":
            lc.transition_obligations(c, rec, list(fl.markets.markets[cm.MID].blotter))
        if state["n"]:
            c.cover("audited")


HARNESSES = [
    Harness("H04b", h04b, quick=dict(K=1), thorough=dict(K=1), pattern="P3 bounded history (auditing strategy)", requires=["audited", "placed", "amended", "second-request-rejected"],
            wall_s=(300, 3000), max_paths=(400000, 6000000), selfcheck=False,
            outside=["more than K+1 updates; one price level per side; order prices on 5 ladder points (sizes, traded volumes: every 2dp value)"]),
    Harness("H04b-K2", h04b, tiers=("thorough",), thorough=dict(K=2, variants=("default",), actions=("none", "place-rest", "place-cross", "cancel-part", "replace"),
                                                                book_events=("open", "traded", "suspended-new-version", "runner-removed")), pattern="P3 bounded history (auditing strategy)",
            requires=["audited", "placed", "amended"], wall_s=(300, 3000), max_paths=(400000, 8000000), selfcheck=False,
            outside=["more than K+1 updates; one price level per side; order prices on 5 ladder points (sizes, traded volumes: every 2dp value)"]),
    Harness("H04a", h04a, quick=dict(max_frags=1), thorough=dict(max_frags=2), pattern="P2 inductive step",
            requires=["replacement-created", "voided", "lapsed", "passive-fill", "cancelled", "sp-matched"], wall_s=(300, 3000),
            max_paths=(150000, 3000000),
            outside=["bet-target-size orders (flumine raises NotImplementedError)", "more than 2 pre-existing fragments",
                     "placement branches: covered by C05 H05a (conservation obligation at the response)"]),
]
META = {"assumptions": ["Inv(pre): buckets >= 0, 2dp, size_matched = sum of fragments, sum of buckets < size (something remains)"]}
