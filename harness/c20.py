"""C20 Market closure is processed once, with results, for the right strategies"""
import queue
import datetime as _dt
from symx.run import Harness
from symx import core
from symx.shims import ClockShim
from flumine.events import events
from flumine.events.events import EventType
from flumine.order.order import OrderStatus
from . import common as cm
from . import simstate as ss

S = OrderStatus
MIDS = [cm.MID, "1.100000002"]
T_LO = 1_600_000_000 * 10**6
T_HI = 1_900_000_000 * 10**6


class LogRec:
    NAME = "REC"

    def __init__(self):
        self.events = []
        self.logging_queue = cm.NS(put=self.events.append)


def _drain(fl, log):
    """live mode: the main loop takes CloseMarketEvents from the handler queue"""
    n = 0
    while True:
        try:
            ev = fl.handler_queue.get_nowait()
        except queue.Empty:
            return n
        if ev.EVENT_TYPE == EventType.CLOSE_MARKET:
            fl._process_close_market(ev)
            n += 1


def h20(c, mode="sim", K=3, n_markets=2):
    """sequences of K updates for up to 2 markets with symbolic status (OPEN / SUSPENDED / CLOSED, repeated, re-opened, never seen
    open), strategies with symbolic subscription, 2 clients, simulation and live mode (symbolic clock for the 3600 s rule)"""
    with cm.config_set(simulated=(mode == "sim")):
        calls = []

        def closed_cb(tag):
            def f(strategy, market, market_book):
                calls.append((tag, market.market_id, market_book))
            return f

        subs = [c.choose("strategy%d_subscription" % i, ["stream", "empty-filter", "neither"]) for i in range(2)]
        if mode == "sim":
            fl, clients, strategies = cm.new_sim(n_strategies=2, n_clients=2, hooks=[dict(process_closed_market=closed_cb(0)), dict(process_closed_market=closed_cb(1))])
        else:
            cleared_reqs = []

            def list_cleared_orders(**kw):
                cleared_reqs.append((kw["market_ids"][0], kw.get("group_by")))
                return cm.NS(orders=[cm.NS(market_id=kw["market_ids"][0])], more_available=False)

            fl, client, strategies = cm.new_live(n_strategies=2, hooks=[dict(process_closed_market=closed_cb(0)), dict(process_closed_market=closed_cb(1))],
                                                 exchange=cm.NS(list_cleared_orders=list_cleared_orders))
            clients = [client]
        for i, s in enumerate(strategies):
            if subs[i] == "stream":
                pass  # subscribed to STREAM_ID (builders)
            elif subs[i] == "empty-filter":
                s.market_filter = {}
                s.historic_stream_ids = {777}
                s.streams = [cm.NS(stream_id=777)]
            else:
                s.market_filter = {"marketIds": ["x"]}
                s.historic_stream_ids = {777}
                s.streams = [cm.NS(stream_id=777)]
        log = LogRec()
        fl.add_logging_control(log)
        mw_states = fl._market_middleware
        now = c.time_us("t_start", T_LO, T_HI) if mode == "live" else None
        shadow = {m: dict(seen=False, closed=False, closes=0, last_close_time=None, removed=False) for m in MIDS}
        order_in = {}
        for k in range(K):
            mid = MIDS[c.choose("market%d" % k, list(range(n_markets)))]
            st = c.choose("status%d" % k, ["OPEN", "SUSPENDED", "CLOSED"])
            res = c.choose("result%d" % k, ["WINNER", "LOSER"]) if st == "CLOSED" else "ACTIVE"
            if mode == "live":
                t = c.time_us("t%d" % k, T_LO, T_HI)
                c.assume(t >= now)
                now = t
                ClockShim.now = now
            other = "LOSER" if res == "WINNER" else ("WINNER" if st == "CLOSED" else "ACTIVE")
            # (the same selection also appears on another handicap line that settles the other way: results go by selection AND handicap)
            r2 = "ACTIVE" if st != "CLOSED" else "LOSER"
            bk = cm.book([cm.runner(1, status=res), cm.runner(2, status=r2 if res != "LOSER" else "LOSER"), cm.runner(1, handicap=1.5, status=other)],
                         market_id=mid, status=st, version=10 + k, pt_ms=cm.T0_MS + 1000 * k,
                         md=cm.market_definition(market_type="WIN", each_way_divisor=None, status=st))
            sh = shadow[mid]
            n_calls_before = len(calls)
            n_ev_before = len(log.events)
            with c.guard("update%d" % k):
                fl._process_market_books(events.MarketBookEvent([bk]))
                if mode == "live":
                    _drain(fl, log)
            market = fl.markets.markets.get(mid)
            if st != "CLOSED":
                for s_ in strategies:
                    # every strategy looks at its runner accounting for the market (as has_executable_orders / validate_order do), whether or
                    # not it ever gets an order into the blotter
                    s_.get_runner_context(mid, 1, 0)
                if market is not None and mid not in order_in and c.choose("place_order_at%d" % k, [False, True]):
                    # (the order may also still be awaiting its placement acknowledgement when the market closes)
                    o, _ = ss.resting_limit(c, "o%d" % k, fl, market, strategies[0], 100 + k, status=c.choose("order_status%d" % k, [S.EXECUTABLE, S.PENDING]), price=2.0, persistence="LAPSE",
                                            max_frags=1, min_frags=1, allow_cancelled=False, side="BACK", client=clients[0],
                                            trade=__import__("flumine.order.trade", fromlist=["Trade"]).Trade(mid, 1, 0, strategies[0]))
                    order_in[mid] = o
                c.ob("update%d.no-closed-callback" % k, len(calls) == n_calls_before)
                if sh["closed"] and not sh["removed"]:
                    c.ob("update%d.reopened" % k, market is not None and market.closed is False and market.orders_cleared == [] and market.market_cleared == [])
                    c.cover("reopened")
                    sh["closed"] = False
                    sh["cleared"] = False
                sh["seen"] = True
                continue
            # ---- a CLOSED update
            known = sh["seen"] or (mode == "live")  # live: the update itself adds the market before queueing the close
            new_calls = calls[n_calls_before:]
            if not known:
                c.ob("update%d.close-of-unseen-market-ignored" % k, new_calls == [] and fl.markets.markets.get(mid) is None)
                c.cover("close-unseen")
                continue
            c.cover("closed")
            sh["seen"] = True
            if sh["closed"]:
                c.cover("repeated-close")
            for i, s in enumerate(strategies):
                want = 1 if subs[i] in ("stream", "empty-filter") else 0
                mine = [x for x in new_calls if x[0] == i]
                c.ob("update%d.strategy%d.closed-callback-count" % (k, i), len(mine) == want, got=len(mine), subscription=subs[i])
                for x in mine:
                    c.ob("update%d.strategy%d.callback-gets-final-book" % (k, i), x[1] == mid and x[2] is bk)
            c.ob("update%d.market-marked-closed" % k, market is not None and market.closed is True)
            c.ob("update%d.market-holds-final-book" % k, market is not None and market.market_book is bk)
            if mid in order_in:
                o = order_in[mid]
                c.ob("update%d.order-receives-result" % k, o.runner_status == res and o.market_type == "WIN")
                exp = (o.simulated.size_matched * (o.simulated.average_price_matched - 1)) if res == "WINNER" else -o.simulated.size_matched
                if mode == "sim":
                    c.ob("update%d.order-profit-follows-result" % k, c.close(o.profit, exp, 0.005))
            new_ev = log.events[n_ev_before:]
            if mode == "sim":
                meta = [e for e in new_ev if e.EVENT_TYPE == EventType.CLEARED_ORDERS_META]
                cm_ev = [e for e in new_ev if e.EVENT_TYPE == EventType.CLEARED_MARKETS]
                c.ob("update%d.cleared-orders-once-iff-orders" % k, len(meta) == (1 if mid in order_in else 0), got=len(meta))
                c.ob("update%d.one-cleared-market-per-client" % k, len(cm_ev) == len(clients), got=len(cm_ev))
                for e in cm_ev:
                    c.ob("update%d.cleared-market-for-this-market" % k, e.event.orders[0].market_id == mid)
                # state released on removal (simulation removes on close)
                c.ob("update%d.middleware-state-released" % k, mid not in fl._market_middleware[0].markets)
                c.ob("update%d.runner-accounting-released" % k, all(key[0] != mid for s in strategies for key in s._invested))
            closes = [e for e in new_ev if e.EVENT_TYPE == EventType.CLOSE_MARKET]
            c.ob("update%d.close-event-logged-once" % k, len(closes) == 1)
            sh["closed"] = True
            sh["closes"] += 1
            sh["last_close_time"] = now
            if mode == "live" and fl.markets.markets.get(mid) is not None:
                # the closure poll of the live framework (real worker function against an exchange double): after each closing update
                # the market's cleared orders AND its cleared-market summary are requested once each
                from flumine import worker
                n0 = len(cleared_reqs)
                with c.guard("poll_market_closure"):
                    worker.poll_market_closure({}, fl)
                    _drain(fl, log)
                mine = [r for r in cleared_reqs[n0:] if r[0] == mid]
                want = 1  # (every closing update re-opens the market first - data arrived again - so each one is a fresh closure)
                c.ob("update%d.closure-poll.cleared-orders-requested" % k, len([r for r in mine if r[1] is None]) == want, got=len([r for r in mine if r[1] is None]), want=want)
                c.ob("update%d.closure-poll.cleared-market-requested" % k, len([r for r in mine if r[1] == "MARKET"]) == want, got=len([r for r in mine if r[1] == "MARKET"]), want=want)
                sh["cleared"] = True
                c.cover("closure-poll")
            if mode == "live":
                # removal rule: only markets that have been closed for more than an hour are removed
                for m2, s2 in shadow.items():
                    if s2["closed"] and not s2["removed"] and s2["last_close_time"] is not None:
                        gone = fl.markets.markets.get(m2) is None
                        old = (now - s2["last_close_time"]).total_seconds() > 3600
                        c.ob("update%d.removed<=>closed-for-more-than-an-hour[%s]" % (k, m2[-1]), gone == old if isinstance(old, bool) else (old if gone else c.Not(old)))
                        if gone:
                            s2["removed"] = True
                            s2["seen"] = False
                            order_in.pop(m2, None)
                            c.cover("removed")
                            c.ob("update%d.removed.runner-accounting-released" % k, all(key[0] != m2 for s in strategies for key in s._invested))
        c.cover("run")


def h20_raw(c, K=3):
    """raw-data recorder mode: K dict updates for one market (a market definition with symbolic status, or a price delta without one) through
    the real _process_raw_data / _process_close_market of a live framework with a recording strategy, the closure poll after each closing
    update: closed callback once per closing update with the datum, market marked closed; ANY datum that arrives for a closed market re-opens
    it with its cleared flags reset (also a delta without a definition, also a repeated CLOSED definition)"""
    from flumine import worker
    with cm.config_set(simulated=False):
        calls, raws = [], []
        cleared_reqs = []

        def list_cleared_orders(**kw):
            cleared_reqs.append((kw["market_ids"][0], kw.get("group_by")))
            return cm.NS(orders=[cm.NS(market_id=kw["market_ids"][0])], more_available=False)

        fl, client, (strategy,) = cm.new_live(n_strategies=1, hooks=dict(process_closed_market=lambda s_, m, b: calls.append((m.market_id, b))),
                                              exchange=cm.NS(list_cleared_orders=list_cleared_orders))
        strategy.process_raw_data = lambda clk, pt, datum: raws.append(datum)
        log = LogRec()
        fl.add_logging_control(log)
        mid = MIDS[0]
        closed = False
        for k in range(K):
            kind = c.choose("datum%d" % k, ["definition-OPEN", "definition-SUSPENDED", "definition-CLOSED", "delta-without-definition"])
            datum = {"id": mid, "rc": [{"id": 1, "ltp": 2.0}]}
            if kind.startswith("definition"):
                datum["marketDefinition"] = {"status": kind.split("-")[1], "runners": []}
            n_calls, n_raw = len(calls), len(raws)
            with c.guard("datum%d" % k):
                fl._process_raw_data(events.RawDataEvent((cm.STREAM_ID, "clk", cm.T0_MS + k, [datum])))
                market = fl.markets.markets.get(mid)
                if closed:
                    # data arrived again for a closed market
                    c.ob("datum%d.reopened-with-flags-reset" % k, market is not None and market.closed is False and market.orders_cleared == [] and market.market_cleared == [],
                         datum=kind)
                    c.cover("reopened")
                    closed = False
                _drain(fl, log)
            c.ob("datum%d.strategy-receives-the-raw-datum-once" % k, len(raws) == n_raw + 1 and raws[-1] is datum)
            if kind == "definition-CLOSED":
                c.ob("datum%d.closed-callback-once-with-the-datum" % k, len(calls) == n_calls + 1 and calls[-1][0] == mid and calls[-1][1] is datum)
                c.ob("datum%d.market-marked-closed" % k, market is not None and market.closed is True)
                n0 = len(cleared_reqs)
                with c.guard("poll_market_closure"):
                    worker.poll_market_closure({}, fl)
                    _drain(fl, log)
                mine = [r for r in cleared_reqs[n0:] if r[0] == mid]
                c.ob("datum%d.closure-poll.cleared-orders-and-market-requested" % k, len([r for r in mine if r[1] is None]) == 1 and len([r for r in mine if r[1] == "MARKET"]) == 1,
                     got=str(mine))
                closed = True
                c.cover("closed")
            else:
                c.ob("datum%d.no-closed-callback" % k, len(calls) == n_calls)
        c.cover("run")


OUT = ["more than K updates / 2 markets / 2 strategies", "raw-data recorder mode: one market, K dict updates (H20-raw)"]
HARNESSES = [
    Harness("H20-sim", h20, quick=dict(mode="sim", K=3), thorough=dict(mode="sim", K=4), pattern="P3 bounded history",
            requires=["run", "closed", "repeated-close", "reopened", "close-unseen"], outside=OUT, max_paths=(400000, 4000000), wall_s=(300, 3000)),
    Harness("H20-raw", h20_raw, quick=dict(K=3), thorough=dict(K=5), pattern="P3 bounded history (dict updates)", requires=["run", "closed", "reopened"], outside=OUT, selfcheck=False),
    Harness("H20-live", h20, quick=dict(mode="live", K=3), thorough=dict(mode="live", K=4), pattern="P3 bounded history + symbolic clock",
            clock_modules=("flumine.markets.market",), requires=["run", "closed", "removed", "reopened", "closure-poll"], outside=OUT, max_paths=(400000, 4000000), wall_s=(300, 3000)),
]
META = {"assumptions": ["live clock: integer microseconds, non-decreasing along the history"]}
