"""C06 Passive liquidity is never double counted; queue position is honoured"""
from symx.run import Harness
from flumine import config
from flumine.order.order import OrderStatus
from . import common as cm
from . import simstate as ss
from .c05 import place_world

HALF = 0.005
LEVELS = [1.5, 2.0, 3.0]


def _eligible(side, tp, price):
    return (tp >= price) if side == "BACK" else (tp <= price)


def h06a(c, r=2, v=2, s=2, suspension=False, statuses=(OrderStatus.EXECUTABLE, OrderStatus.CANCELLING)):
    """real SimulatedMiddleware.__call__ (RunnerAnalytics._calculate_traded, _process_simulated_orders, _sort_orders,
    SimulatedOrder._process_traded) on r resting orders of up to s strategies vs an independent ledger"""
    iso = c.choose("simulated_strategy_isolation", [True, False])
    with cm.config_set(simulated=True, simulated_strategy_isolation=iso):
        fl, (client,), strategies = cm.new_sim(n_strategies=s)
        mw = fl._market_middleware[0]
        levels = LEVELS[:v]
        old, new = {}, {}
        for i, tp in enumerate(levels):
            if c.choose("old%d_present" % i, [True, False]):
                old[tp] = c.cents("old%d" % i, 0, 2000000)
            if c.choose("new%d_present" % i, [True, False]):
                new[tp] = c.cents("new%d" % i, 0, 2000000)
        bk1 = cm.book([cm.runner(1, tv=[{"price": p, "size": x} for p, x in old.items()]), cm.runner(2)], version=7)
        market = cm.add_market(fl, bk1)
        mw(market)
        orders = []
        for j in range(r):
            st = strategies[c.choose("o%d_strategy" % j, list(range(s)))] if s > 1 and j > 0 else strategies[0]
            side = c.choose("o%d_side" % j, ["BACK", "LAY"])
            price = c.choose("o%d_price" % j, [1.5, 2.0, 2.5])
            # (an order with a cancel / update / replace in flight still rests at the exchange and is matched like any other)
            status = c.choose("o%d_status" % j, list(statuses)) if suspension else OrderStatus.EXECUTABLE
            o, d = ss.resting_limit(c, "o%d" % j, fl, market, st, 100 + j, side=side, price=price, persistence="LAPSE",
                                    status=status, max_frags=0, allow_cancelled=False)
            piq = c.cents("o%d_piq" % j, 0, 1000000)
            o.simulated._piq = piq
            orders.append(dict(order=o, side=side, price=price, piq=piq, rem=o.simulated.size_remaining, strategy=st, n0=len(o.simulated.matched)))
        bk2 = cm.book([cm.runner(1, tv=[{"price": p, "size": x} for p, x in new.items()]), cm.runner(2)], version=7, pt_ms=cm.T0_MS + 1000)
        if suspension and c.choose("update_carries_a_suspension", [False, True]):
            # the update that reports the trades also suspends the market (no new version: resting orders survive): that volume traded
            # before the suspension and counts like any other
            bk2.status = "SUSPENDED"
            c.cover("suspended-update")
        with c.guard("update"):
            market(bk2)
            mw(market)
        # ---- independent ledger: positive increments of the cumulative ladder, halved (both sides of each trade are reported)
        delta = {}
        for tp in levels:
            if tp in new:
                d = new[tp] - old[tp] if tp in old else new[tp]
                delta[tp] = c.smax(d, 0) / 2
        for wi, w in enumerate(orders):
            o = w["order"]
            frs = o.simulated.matched[w["n0"]:]
            w["fill"] = cm.total([f[2] for f in frs])
            w["elig_levels"] = [tp for tp in delta if _eligible(w["side"], tp, w["price"])]
            w["E"] = cm.total([delta[tp] for tp in w["elig_levels"]])
            for k, f in enumerate(frs):
                c.ob("o.fragment%d.at-own-price" % k, f[1] == w["price"])
                c.ob("o.fragment%d.size>0" % k, f[2] > 0)
            c.observe("fill%d" % wi, w["fill"])
            nlev = max(len(w["elig_levels"]), 1)
            lone = c.smin(c.smax(w["E"] - w["piq"], 0), w["rem"])
            # never more than a lone order would get (queue ahead first, half the reported volume, at/through the limit)
            c.ob("order.fill<=lone-order-fill", w["fill"] <= lone + HALF * nlev)
            c.ob("order.fill<=remaining", w["fill"] <= w["rem"])
            if not w["elig_levels"]:
                c.ob("order.no-eligible-level.no-fill", w["fill"] == 0)
        for w in orders:
            # alone among the resting orders of its strategy (of the instance when isolation is off): exactly the lone-order amount
            if len([x for x in orders if (x["strategy"] is w["strategy"]) or not iso]) == 1:
                lone = c.smin(c.smax(w["E"] - w["piq"], 0), w["rem"])
                c.ob("lone-order.fill=exactly", c.close(w["fill"], lone, HALF * max(len(w["elig_levels"]), 1)))
                c.cover("lone")
        # ---- per strategy (per instance when isolation is off): never more than the eligible volume of the update
        groups = {}
        for w in orders:
            groups.setdefault(w["strategy"] if iso else None, []).append(w)
        for g, ws in groups.items():
            if len(ws) < 2:
                continue
            union = sorted(set(tp for w in ws for tp in w["elig_levels"]))
            E_union = cm.total([delta[tp] for tp in union])
            c.ob("group.total-fill<=eligible-volume", cm.total([w["fill"] for w in ws]) <= E_union + HALF * len(ws) * max(len(union), 1))
            c.cover("group")
            # better price to the other side first: the worse priced order of one side is only served once the better one is complete
            for a in ws:
                for b in ws:
                    if a is b or a["side"] != b["side"]:
                        continue
                    better = (a["price"] > b["price"]) if a["side"] == "LAY" else (a["price"] < b["price"])
                    if better:
                        # (a cent per traded level can leak through the 2dp rounding of half-volumes)
                        c.ob("priority.worse-price-waits", c.Or(b["fill"] <= 2 * HALF * max(len(b["elig_levels"]), 1), a["order"].simulated.size_remaining == 0))
                        c.cover("priority")
        if c.is_true(cm.total([w["fill"] for w in orders]) > 0):
            c.cover("fill")
        # ---- a further update whose traded ladder is unchanged carries no new volume: nothing is filled out of it
        if True:
            n1 = [len(w["order"].simulated.matched) for w in orders]
            bk3 = cm.book([cm.runner(1, tv=[{"price": p, "size": x} for p, x in new.items()]), cm.runner(2)], version=7, pt_ms=cm.T0_MS + 2000)
            with c.guard("unchanged-update"):
                market(bk3)
                mw(market)
            for w, n in zip(orders, n1):
                c.ob("unchanged-ladder.no-fill", len(w["order"].simulated.matched) == n)
            c.cover("unchanged-ladder")
        if r == 1 and suspension:
            # a third update: the cumulative ladder moves again (a level may have gone DOWN at the second update - voided trades - and now rises):
            # only what traded since the previous update counts, whatever the level showed before that
            w = orders[0]
            o = w["order"]
            n2 = len(o.simulated.matched)
            rem2, piq2 = o.simulated.size_remaining, o.simulated._piq
            third = dict(new)
            for i, tp in enumerate(levels):
                if tp in new:
                    third[tp] = new[tp] + c.cents("third_delta", 1, 2000000)  # (one level rises, by any amount)
                    break
            bk3 = cm.book([cm.runner(1, tv=[{"price": p, "size": x} for p, x in third.items()]), cm.runner(2)], version=7, pt_ms=cm.T0_MS + 3000)
            with c.guard("third-update"):
                market(bk3)
                mw(market)
            d3 = cm.total([c.smax(third[tp] - new[tp], 0) / 2 for tp in third if _eligible(w["side"], tp, w["price"])])
            fill3 = cm.total([f[2] for f in o.simulated.matched[n2:]])
            lone3 = c.smin(c.smax(d3 - piq2, 0), rem2)
            c.ob("third-update.lone-order.fill=exactly", c.close(fill3, lone3, HALF * max(len(third), 1)))
            c.cover("third-update")


def h06b(c, L=2):
    """queue position captured at placement: a resting order's queue is the size shown at its own price on the side of the
    book where it joins (0 if that price is not shown)"""
    with cm.config_set(simulated=True):
        w = place_world(c, L, allow_sfm=False, fok_choices=(None,))
        sim = w["order"].simulated
        if w["ver"] == "mismatch" or not c.is_true(sim.size_remaining == w["size"]) or c.is_true(sim.size_lapsed > 0):
            return
        # nothing matched, nothing lapsed: the order rests.  A resting BACK joins the backers' queue, which the book shows
        # as available-to-lay at that price (and vice versa)
        queue_side = w["atl"] if w["side"] == "BACK" else w["atb"]
        exp = 0
        for lv in reversed(queue_side):
            exp = c.ite(lv["price"] == w["price"], lv["size"], exp)
        c.ob("queue-position=size-shown-at-own-price", sim._piq == exp)
        c.observe("piq", sim._piq)
        c.cover("rest")
        if any(c.is_true(lv["price"] == w["price"]) for lv in queue_side):
            c.cover("queue-ahead")


class _Only:
    def __init__(self, c, keep):
        object.__setattr__(self, "_c", c)
        object.__setattr__(self, "_keep", keep)

    def __getattr__(self, k):
        return getattr(self._c, k)

    def __setattr__(self, k, v):
        setattr(self._c, k, v)

    def ob(self, name, cond, **tags):
        if any(x in name for x in self._keep):
            self._c.ob(name, cond, **tags)


def h06c(c, U=3):
    """loop level (C07 world): a placement reaches the simulated exchange against the book of the previous update, so its queue
    position is the one shown before the trades of the update that delivers it - volume that traded before it arrived never fills it"""
    from .c07 import h07
    h07(_Only(c, ("against-previous-book", "queue-captured-from-previous-book", "pending-no-fills", "no-exception")), U=U, R=1)


HARNESSES = [
    Harness("H06c", h06c, quick=dict(U=3), thorough=dict(U=4), pattern="P3 with symbolic time", requires=["run", "executed"]),
    Harness("H06a-1", h06a, quick=dict(r=1, v=2, s=1, suspension=True), thorough=dict(r=1, v=3, s=1, suspension=True, statuses=(OrderStatus.EXECUTABLE, OrderStatus.CANCELLING, OrderStatus.UPDATING, OrderStatus.REPLACING)), pattern="P2 inductive step",
            max_paths=(60000, 2000000), requires=["lone", "fill", "unchanged-ladder", "suspended-update", "third-update"],
            outside=["order and traded prices outside {1.5, 2.0, 2.5, 3.0}"]),
    Harness("H06a", h06a, quick=dict(r=2, v=2, s=2), thorough=dict(r=3, v=1, s=2), pattern="P2 inductive step", requires=["lone", "group", "priority", "fill", "unchanged-ladder"],
            wall_s=(300, 3000), max_paths=(300000, 5000000),
            outside=["simulation_available_prices=True (documented double-counting mode, excluded by the property)", "more than r resting orders / v traded price levels per update",
                     "order and traded prices outside {1.5, 2.0, 2.5, 3.0} (sizes, queue sizes and volumes: every 2dp value, symbolic)"]),
    Harness("H06b", h06b, quick=dict(L=2), thorough=dict(L=3), pattern="P1 kernel-with-oracle", requires=["rest", "queue-ahead"]),
]
META = {"assumptions": ["tolerance: half a cent per (order, traded level) rounding performed by the code"]}
