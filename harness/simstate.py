"""symbolic pre-states of simulated orders (arbitrary buckets constrained by the representation invariant)"""
from flumine.order.order import OrderStatus
from flumine.order.orderpackage import BetfairOrderPackage, OrderPackageType
from flumine.utils import wap
from . import common as cm
from . import position as pos

LIVE_AT_EXCHANGE = [OrderStatus.EXECUTABLE, OrderStatus.CANCELLING, OrderStatus.UPDATING, OrderStatus.REPLACING]
FRAG_PRICES = [1.01, 1.5, 2.0, 3.0, 11.0, 1000.0]


def resting_limit(c, tag, fl, market, strategy, bet_id, side=None, price=None, selection_id=1, status=None,
                  persistence=None, max_frags=2, allow_cancelled=True, price_values=None, client=None, trade=None,
                  statuses=None, min_frags=0, handicap=0):
    """a real LIMIT order resting at the exchange in an arbitrary state satisfying Inv:
    buckets >= 0 and 2dp, size_matched = sum(fragments), sum(buckets) <= size, remaining > 0"""
    side = side or c.choose("%s_side" % tag, ["BACK", "LAY"])
    if price is None:
        price = c.pick("%s_price" % tag, price_values or pos.PRICES_K)
    size = c.cents("%s_size" % tag, 1, 1000000)
    persistence = persistence or c.choose("%s_persistence" % tag, ["LAPSE", "PERSIST", "MARKET_ON_CLOSE"])
    order = cm.mk_limit(strategy, side, price, size, selection_id=selection_id, persistence=persistence, trade=trade, handicap=handicap)
    sim = order.simulated
    nf = c.choose("%s_fragments" % tag, list(range(min_frags, max_frags + 1)))
    frags = []
    for i in range(nf):
        fp = c.pick("%s_f%dp" % (tag, i), FRAG_PRICES)
        fs = c.cents("%s_f%ds" % (tag, i), 1, 1000000)
        frags.append([cm.T0_MS - 1000 * (nf - i), fp, fs])
    m = cm.total([f[2] for f in frags])
    canc = c.cents("%s_cancelled" % tag, 1, 1000000) if (allow_cancelled and c.choose("%s_part_cancelled" % tag, [False, True])) else 0
    c.assume(m + canc < size)  # something remains (otherwise the order would have been completed by the sweep)
    sim.matched = frags
    if frags:
        sim.size_matched, sim.average_price_matched = wap(frags)
    sim.size_cancelled = canc
    sim.market_version = market.market_book.version
    status = status or c.choose("%s_status" % tag, statuses or LIVE_AT_EXCHANGE)
    cm.place_resting(fl, market, strategy, order, bet_id, status=status, client=client)
    order.responses.placed(cm.NS(bet_id=str(bet_id), status="SUCCESS"))
    d = dict(order=order, side=side, price=price, size=size, persistence=persistence, matched=m, cancelled=canc, status=status,
             frags=[list(f) for f in frags])
    return order, d


def package(fl, market, orders, kind, market_version=None):
    client = orders[0].client
    return BetfairOrderPackage(client=client, market_id=market.market_id, orders=list(orders), package_type=kind,
                               bet_delay=market.market_book.bet_delay, market_version=market_version)


def conservation_obs(c, tag, order, size, total_only=False):
    s = order.simulated
    tot = s.size_matched + s.size_remaining + s.size_cancelled + s.size_lapsed + s.size_voided
    c.ob("%s.conservation" % tag, tot == size)
    c.ob("%s.matched>=0" % tag, s.size_matched >= 0)
    c.ob("%s.remaining>=0" % tag, s.size_remaining >= 0)
    if not total_only:
        c.ob("%s.cancelled>=0" % tag, s.size_cancelled >= 0)
    c.ob("%s.lapsed>=0" % tag, s.size_lapsed >= 0)
    c.ob("%s.voided>=0" % tag, s.size_voided >= 0)
    c.ob("%s.matched=sum(fragments)" % tag, s.size_matched == cm.total([f[2] for f in s.matched]))
