"""C14 Simulation is deterministic, complete and chronological"""
import datetime as real_datetime_module
import datetime as _dt
from symx.run import Harness
from symx import core
from flumine import config
from flumine.order.order import OrderStatus
from . import common as cm

S = OrderStatus
REAL_DT = _dt.datetime


class StubStream:
    """stands for a HistoricalStream: yields the prepared books (the data feed is environment)"""

    def __init__(self, stream_id, event_group, books):
        self.stream_id = stream_id
        self.event_group = event_group
        self.market_filter = "file-%s" % stream_id
        self.books = books
        self.custom = True

    def create_generator(self):
        def gen():
            for b in self.books:
                yield [b]
        return gen

    def start(self):
        pass

    def stop(self):
        pass


class StubStreams(list):
    def start(self):
        pass

    def stop(self):
        pass

    def add_client(self, client):
        pass


def _mentions(expr, var):
    seen, stack = set(), [expr]
    while stack:
        x = stack.pop()
        if x.get_id() in seen:
            continue
        seen.add(x.get_id())
        if x.num_args() == 0:
            if core.z3.is_const(x) and x.decl().kind() == core.z3.Z3_OP_UNINTERPRETED and x.decl().name() == var:
                return True
        else:
            stack.extend(x.children())
    return False


def h14a(c, n_streams=2, lengths=(1, 2), grouping="choose", raise_in_callback=False, cooldown=False, orders=False, closing=False):
    """real FlumineSimulation.run() over stub streams with symbolic publish times (non-decreasing per stream, ties across
    streams allowed), symbolic event grouping and a symbolic wall clock: chronological, complete, exactly once, clock = publish
    time, wall clock never observed, real clock restored"""
    wall = c.time_us("wall_clock", 1_600_000_000 * 10**6, 1_900_000_000 * 10**6)
    seen = []
    raise_at = c.choose("callback_raises_at", [None, 0, 1]) if raise_in_callback else None
    with cm.config_set(simulated=True, raise_errors=bool(raise_in_callback), place_latency=0.0):

        placed = []
        sent = {}  # market id -> (order, index of the update it was requested on)
        seen_closed = []

        def pcm(strategy, market, market_book):
            seen_closed.append((market.market_id, market_book, _dt.datetime.utcnow(), market.date_time_closed))

        def pmb(strategy, market, market_book):
            seen.append((market.market_id, market_book, _dt.datetime.utcnow(), strategy))
            if orders:
                for mid2, (o2, j2) in sent.items():
                    if mid2 != market.market_id and len([x for x in seen if x[0] == mid2]) - 1 == j2 and not [x for x in seen_closed if x[0] == mid2]:
                        # no update of that market since its request: the request is still pending whatever other markets have ticked
                        c.ob("request-not-executed-on-another-markets-update", o2.status == OrderStatus.PENDING and o2.bet_id is None, status=o2.status.name)
            if orders and market.market_id not in sent:
                # one request per market, made on its first update: it falls due on the market's next update (also a closing one, also
                # when another market of the group ends in between)
                o = cm.mk_limit(strategy, "BACK", 2.0, 2.0, market_id=market.market_id)
                market.place_order(o, force=True)
                sent[market.market_id] = (o, len([x for x in seen if x[0] == market.market_id]) - 1)
            if cooldown:
                # a strategy with a 5 s placement cool-down tries an order on every update: what is accepted may only depend
                # on the recorded publish times
                from flumine.order.trade import Trade
                o = Trade(market.market_id, 1, 0, strategy, place_reset_seconds=5.0).create_order("BACK", cm.LimitOrder(2.0, 2.0))
                placed.append((market.market_id, market_book.publish_time_epoch, market.place_order(o)))
            if raise_at is not None and len(seen) - 1 == raise_at:
                raise RuntimeError("strategy bug")

        fl, (client,), (strategy,) = cm.new_sim(hooks=dict(process_market_book=pmb, process_closed_market=pcm))
        grouped = c.choose("event_processing", [True, False]) if grouping == "choose" else grouping
        streams = StubStreams()
        all_books = []
        closed_books = []
        for s in range(n_streams):
            L = c.choose("stream%d_length" % s, list(lengths))
            prev = None
            books = []
            for j in range(L):
                t, tms = c.time_ms("s%d_t%d" % (s, j), cm.T0_MS, cm.T0_MS + 10**7)
                if prev is not None:
                    c.assume(tms >= prev)
                prev = tms
                b = cm.book([cm.runner(1)], market_id="1.10000000%d" % (s + 1), version=1 + j, pt=t, pt_ms=tms, stream_id=cm.STREAM_ID)
                if closing and j == L - 1 and j > 0 and c.choose("stream%d_ends_closed" % s, [False, True]):
                    b.status = "CLOSED"
                    b.runners[0].status = "WINNER"
                    b.market_definition = cm.market_definition(status="CLOSED")
                    closed_books.append(b)
                books.append(b)
                all_books.append((s, j, b, tms))
            same_group = grouped and (s == 0 or c.choose("stream%d_same_group" % s, [True, False]))
            streams.append(StubStream(1000 + s, ("ev1" if same_group else "ev%d" % (s + 2)) if grouped else None, books))
        fl.streams = streams

        class WallClock(REAL_DT):
            @classmethod
            def utcnow(cls):
                return wall

        escaped = None
        _dt.datetime = WallClock  # the "real" clock that SimulatedDateTime captures and must restore
        try:
            try:
                fl.run()
            except RuntimeError as e:
                escaped = e
            after = _dt.datetime
        finally:
            _dt.datetime = REAL_DT
        c.ob("real-clock-restored-after-run", after is WallClock, raised=escaped is not None)
        if escaped is not None:
            c.cover("run-ended-with-exception")
            return
        open_books = [x for x in all_books if not any(x[2] is b for b in closed_books)]
        c.ob("every-update-delivered-exactly-once", len(seen) == len(open_books) and all(len([1 for x in seen if x[1] is b]) == 1 for (_, _, b, _) in open_books),
             delivered=len(seen), expected=len(open_books))
        c.ob("every-closing-update-delivered-exactly-once", len(seen_closed) == len(closed_books) and all(len([1 for x in seen_closed if x[1] is b]) == 1 for b in closed_books))
        for x in seen_closed:
            c.ob("closing-update.clock=publish-time", x[2] is x[1].publish_time or c.is_true(x[2] == x[1].publish_time))
            c.ob("closing-update.closed-at=publish-time", x[3] is x[1].publish_time or c.is_true(x[3] == x[1].publish_time))
            c.cover("closing-update")
        for mid, (o, j0) in sent.items():
            t_req = [tms for (s2, j, b, tms) in all_books if b.market_id == mid and j == j0][0]
            later = [j for (s2, j, b, tms) in all_books if b.market_id == mid and j > j0 and c.is_true(tms > t_req)]
            if later:
                # the market had an update strictly later in time: the request fell due on it (zero latency) and took effect
                c.ob("request-takes-effect-at-the-next-update-of-its-market", o.bet_id is not None and o.status != OrderStatus.PENDING, status=o.status.name,
                     grouped=bool(grouped))
                c.cover("request-executed")
        # each stream's own order preserved
        for s in range(n_streams):
            idx = [i for i, x in enumerate(seen) for (s2, j, b, _) in all_books if s2 == s and x[1] is b]
            js = [j for x in seen for (s2, j, b, _) in all_books if s2 == s and x[1] is b]
            c.ob("stream%d.own-order-preserved" % s, js == sorted(js))
        # markets grouped as one event are interleaved in non-decreasing publish-time order
        groups = {}
        for st in streams:
            groups.setdefault(st.event_group, []).append(st)
        for g, sts in groups.items():
            if g is None or len(sts) < 2:
                continue
            members = [x for x in seen if any(x[1] in st.books for st in sts)]
            for a, b in zip(members, members[1:]):
                c.ob("event-group.non-decreasing-publish-time", a[1].publish_time_epoch <= b[1].publish_time_epoch)
            c.cover("event-group")
        for x in seen:
            c.ob("clock=publish-time-of-update", x[2] is x[1].publish_time or c.is_true(x[2] == x[1].publish_time))
            if c.mode == "sym" and isinstance(x[2], core.SymTime):
                c.ob("clock-independent-of-wall-clock", not _mentions(x[2].us, "wall_clock"))
        last = {}
        for (mid, tms, ok) in placed:
            exp = True if mid not in last else c.is_true(tms - last[mid] >= 5000)
            c.ob("cool-down-measured-on-publish-times", ok == exp, accepted=ok)
            if ok:
                last[mid] = tms
            else:
                c.cover("cool-down-refusal")
        if c.mode == "sym":
            # (the only assertions about the wall clock are the two bounds of its input range)
            c.ob("no-decision-depends-on-wall-clock", len([a for a in c.solver.assertions() if _mentions(a, "wall_clock")]) <= 2)
        c.cover("run")


def h14d(c, n_updates=2):
    """FlumineMarketStream._process listener filters (inplay, seconds_to_start, max_inplay_seconds) with symbolic publish
    times and a market definition that can change (turn in-play, rescheduled start): active <=> the documented rule on the
    definition in force"""
    from flumine.streams.historicalstream import FlumineMarketStream, HistoricListener
    mode = c.choose("filter", ["none", "inplay-true", "inplay-false", "seconds-to-start", "max-inplay-seconds", "inplay-false+seconds-to-start"])
    c.tag("filter", mode)
    kw = {}
    sts = mis = None
    if mode == "inplay-true":
        kw["inplay"] = True
    elif mode == "inplay-false":
        kw["inplay"] = False
    elif mode == "seconds-to-start":
        sts = c.int("seconds_to_start", 1, 7200)
        kw["seconds_to_start"] = sts
    elif mode == "max-inplay-seconds":
        mis = c.int("max_inplay_seconds", 0, 7200)
        kw["max_inplay_seconds"] = mis
    elif mode == "inplay-false+seconds-to-start":
        # (the combination of the documentation's listener_kwargs example: pre-play data of the last N seconds only)
        sts = c.int("seconds_to_start", 1, 7200)
        kw["inplay"] = False
        kw["seconds_to_start"] = sts
    listener = HistoricListener(max_latency=None, update_clk=False, **kw)
    stream = FlumineMarketStream(listener, 123)
    # environment: the local time zone of the process running the backtest (any offset from UTC): what is delivered must not depend on it
    from symx.shims import ClockShim as _CS
    _CS.local_offset_min = c.int("local_utc_offset_minutes", -720, 840)
    MT = ["2023-11-14T23:00:00.000Z", "2023-11-14T22:30:00.000Z", "2023-11-14T23:45:00.000Z"]
    mt_us = {m: int((REAL_DT.strptime(m, "%Y-%m-%dT%H:%M:%S.%fZ") - core._EPOCH).total_seconds()) * 10**6 for m in MT}
    cur = dict(status="OPEN", inPlay=False, marketTime=MT[0])
    prev_t = None
    inplay_since = None
    was_inplay = False
    for k in range(n_updates):
        t, tms = c.time_ms("pt%d" % k, 1_699_990_000_000, 1_700_010_000_000)
        if prev_t is not None:
            c.assume(tms >= prev_t)
        prev_t = tms
        upd = {"id": cm.MID}
        if k == 0 or c.choose("definition_in_update%d" % k, [False, True]):
            if k > 0:
                cur = dict(status=c.choose("status%d" % k, ["OPEN", "SUSPENDED"]), inPlay=c.choose("inplay%d" % k, [False, True]),
                           marketTime=c.choose("market_time%d" % k, MT))
            upd["marketDefinition"] = dict(cur, runners=[], bspMarket=False, bettingType="ODDS", numberOfWinners=1, version=1, marketType="WIN",
                                           eventId="1", eventTypeId="7", timezone="UTC", turnInPlayEnabled=True, persistenceEnabled=True, marketBaseRate=5,
                                           numberOfActiveRunners=1, betDelay=0, bspReconciled=False, complete=True, crossMatching=False,
                                           runnersVoidable=False, discountAllowed=True, regulators=[], openDate=cur["marketTime"], suspendTime=cur["marketTime"])
        if k == 0:
            upd["img"] = True
        with c.guard("_process-%d" % k):
            active = stream._process([upd], tms)
        # ---- documented rule
        if mis is not None and cur["inPlay"] and not was_inplay:
            inplay_since = tms
        was_inplay = cur["inPlay"] if "marketDefinition" in upd else was_inplay
        exp = True
        if cur["status"] == "OPEN":
            if mode == "inplay-true":
                exp = cur["inPlay"]
            elif mode == "inplay-false":
                exp = not cur["inPlay"]
            elif mode == "seconds-to-start":
                secs = (mt_us[cur["marketTime"]] - tms * 1000) / 1000000
                exp = c.Not(secs > sts)
            elif mode == "max-inplay-seconds" and inplay_since is not None:
                exp = c.Not((tms - inplay_since) / 1000 > mis)
            elif mode == "inplay-false+seconds-to-start":
                secs = (mt_us[cur["marketTime"]] - tms * 1000) / 1000000
                exp = c.And(not cur["inPlay"], c.Not(secs > sts))
        c.ob("update%d.active<=>filter-rule" % k, (exp if active else c.Not(exp)) if not isinstance(exp, bool) else active == exp)
        if not active:
            c.cover("filtered-out")
    c.cover("filters")


OUT = ["independence from process and PYTHONHASHSEED: needs separate interpreter processes (testing, not solving) - NOT claimed",
       "JSON decoding and betfairlightweight's cache internals - NOT claimed", "more than 3 streams x 3 books"]
def h14f(c, U=3):
    """loop level (C07 world): a strategy callback enters SimulatedDateTime.real_time() and raises inside it (the framework contains the
    error): every later callback still sees the publish time of the update being processed, requests still take effect on the simulated clock"""
    from .c07 import h07
    from .c06 import _Only
    h07(_Only(c, ("strategy-clock=publish-time", "clock-at-execution=processing-update", "executed-at-first-due-update", "no-exception")), U=U, R=1, real_time_error=True)


def h14i(c, U=3):
    """loop level (C07 world) with updates of another market of the same file, also delivered together in one event: the clock a strategy sees
    is the publish time of the very book being processed"""
    from .c07 import h07
    from .c06 import _Only
    h07(_Only(c, ("strategy-clock=publish-time", "clock-at-execution=processing-update", "no-exception")), U=U, R=1, other_market=True)


def h14g(c):
    """a strategy only shares a historical stream with another one when their listener filters mean the same (C13 harness): otherwise
    updates that pass its own filters would be dropped by the other strategy's filter"""
    from .c13 import h13c
    h13c(c)


HARNESSES = [
    Harness("H14h", h14a, quick=dict(n_streams=2, lengths=(2, 3), orders=True, closing=True), thorough=dict(n_streams=2, lengths=(2, 3, 4), orders=True, closing=True),
            pattern="P1 + P3 (requests in flight across stream ends and closing updates)", requires=["run", "event-group", "closing-update", "request-executed"],
            selfcheck=False),
    Harness("H14i", h14i, quick=dict(U=3), thorough=dict(U=4), pattern="P3 with symbolic time", requires=["run", "other-market-update", "multi-book-event"], selfcheck=False),
    Harness("H14g", h14g, pattern="exhaustive choice product (structural)", requires=["separate", "may-share"], selfcheck=False),
    Harness("H14f", h14f, quick=dict(U=3), thorough=dict(U=4), pattern="P3 with symbolic time", requires=["run", "executed"], selfcheck=False),
    Harness("H14a", h14a, quick=dict(n_streams=2, lengths=(1, 3)), thorough=dict(n_streams=3, lengths=(1, 2, 3)), pattern="P1 + P4 (wall clock)",
            requires=["run", "event-group"], outside=OUT, max_paths=(400000, 4000000), wall_s=(300, 3000), selfcheck=False),
    Harness("H14e", h14a, quick=dict(n_streams=1, lengths=(3,), grouping=False, cooldown=True), thorough=dict(n_streams=2, lengths=(2, 3), cooldown=True),
            pattern="P1 + P4 (wall clock)", requires=["run", "cool-down-refusal"], outside=OUT, selfcheck=False),
    Harness("H14c", h14a, quick=dict(n_streams=2, lengths=(1, 2), raise_in_callback=True), pattern="control-flow obligation on every path",
            requires=["run-ended-with-exception"], outside=OUT, selfcheck=False),
    Harness("H14d", h14d, quick=dict(n_updates=3), thorough=dict(n_updates=4), pattern="P1 kernel-with-oracle",
            clock_modules=("flumine.streams.historicalstream",), requires=["filters", "filtered-out"], outside=OUT, selfcheck=False),
]
META = {"assumptions": ["the data feed is a stub generator per stream (environment); publish times integer milliseconds"]}
