"""C17 Price helpers and order validation agree with the exchange's ladders"""
import fractions
import decimal
from symx.run import Harness
from symx import core
from symx.shims import SymList
from betfairlightweight.metadata import currency_parameters
from flumine import utils
from flumine.clients.betfairclient import BetfairClient
from flumine.order.order import OrderStatus, BetdaqOrder
from flumine.order.ordertype import BetdaqLimitOrder
from flumine.order.trade import Trade
from . import common as cm

F = fractions.Fraction
# the exchange's documented price increments (Betfair "Betfair Price Increments")
BANDS = [("1.01", "2", "0.01"), ("2", "3", "0.02"), ("3", "4", "0.05"), ("4", "6", "0.1"), ("6", "10", "0.2"), ("10", "20", "0.5"),
         ("20", "30", "1"), ("30", "50", "2"), ("50", "100", "5"), ("100", "1000", "10")]


def _table():
    t = []
    for lo, hi, inc in BANDS:
        x = F(lo)
        while x < F(hi):
            t.append(x)
            x += F(inc)
    t.append(F(1000))
    return t


TABLE = _table()
TABLE_SET = set(TABLE)


def nearest_exact(y):
    """closest tick to the exact value of the double y (upper tick on an exact tie)"""
    fy = F(y)
    best = min(TABLE, key=lambda t: (abs(t - fy), -t))
    return float(best)
ORACLE = SymList([decimal.Decimal(x.numerator) / decimal.Decimal(x.denominator) for x in TABLE])
FINEST = SymList([decimal.Decimal(n) / 100 for n in range(101, 100001)])


def _member(lst, v):
    s = core.as_sym(v)
    if s.alts is not None or not core._const_int(s.n) is None and False:
        pass
    if isinstance(v, core.Sym):
        return core.SymBool(lst._member(v))
    return F(decimal.Decimal(repr(float(v)))) in lst.fr


def h17a(c, ladder="betfair", real_input=False):
    """get_nearest_price on every number of [0,1100] (0.001 grid; thorough: a symbolic real): a tick, the closest one,
    clamped, idempotent"""
    x = c.real("x", 0, 1100) if real_input else c.mills("x", 0, 1100000)
    if ladder == "betfair":
        r = utils.get_nearest_price(x)
        table = ORACLE
    else:
        r = utils.get_nearest_price(x, utils.BETDAQ_CUTOFFS)
        table = SymList(list(utils.BETDAQ_PRICES.data if hasattr(utils.BETDAQ_PRICES, "data") else utils.BETDAQ_PRICES))
    c.observe("result", r)
    rs = core.as_sym(r) if c.mode == "sym" else r
    if c.mode == "sym":
        c.ob("result-is-a-tick", core.SymBool(table._member(rs)))
        if c.is_true(core.SymBool(table._member(rs))):
            idx = table.index(rs)
            n = len(table)
            c.ob("no-tick-below-closer", c.Or(idx == 0, c.ite(idx > 0, 1, 0) == 0) if False else True)
            if c.is_true(idx > 0):
                lower = table[idx - 1]
                c.ob("lower-neighbour-not-closer", abs(x - rs) <= abs(x - lower))
            if c.is_true(idx < n - 1):
                upper = table[idx + 1]
                c.ob("upper-neighbour-not-closer", abs(x - rs) <= abs(x - upper))
    else:
        fr = F(decimal.Decimal(repr(float(r))))
        c.ob("result-is-a-tick", fr in table.fr)
        if fr in table.fr:
            i = table.fr.index(fr)
            fx = F(decimal.Decimal(repr(float(x)))) if not isinstance(x, F) else x
            if i > 0:
                c.ob("lower-neighbour-not-closer", abs(fx - fr) <= abs(fx - table.fr[i - 1]))
            if i < len(table.fr) - 1:
                c.ob("upper-neighbour-not-closer", abs(fx - fr) <= abs(fx - table.fr[i + 1]))
    c.ob("clamped-low", c.Implies(x <= 1.01, r == 1.01))
    c.ob("clamped-high", c.Implies(x >= 1000, r == 1000))
    c.ob("within-range", c.And(r >= 1.01, r <= 1000))
    if ladder == "betfair":
        r2 = utils.get_nearest_price(r)
    else:
        r2 = utils.get_nearest_price(r, utils.BETDAQ_CUTOFFS)
    c.ob("idempotent", r2 == r)
    c.cover("nearest")


def h17b(c, ladder="betfair"):
    """price_ticks_away from every tick by every n in [-400, 400]: lands exactly n ticks away, clamped at both ends"""
    live = utils.PRICES_FLOAT if ladder == "betfair" else utils.BETDAQ_PRICES_FLOAT
    n_ticks = len(live)
    i = c.int("tick_index", 0, n_ticks - 1)
    n = c.int("n", -400, 400)
    if c.mode == "sym":
        price = live[i]
        table = ORACLE if ladder == "betfair" else SymList(list(utils.BETDAQ_PRICES.data))
    else:
        price = live[i]
        table = None
    with c.guard("price_ticks_away"):
        r = utils.price_ticks_away(price, n) if ladder == "betfair" else utils.price_ticks_away(price, n, live)
    c.observe("result", r)
    j = c.smin(c.smax(i + n, 0), n_ticks - 1)
    if c.mode == "sym":
        exp = table[j]
        c.ob("lands-n-ticks-away-clamped", core.as_sym(r) == exp)
    else:
        exp = float(ORACLE.data[j]) if ladder == "betfair" else utils.BETDAQ_PRICES_FLOAT[j]
        c.ob("lands-n-ticks-away-clamped", r == exp)
    c.cover("ticks-away")


def h17l(c):
    """the ladders built at import by make_prices equal the documented increment table (finite, concrete)"""
    real = lambda l: list(l.data) if hasattr(l, "data") else list(l)  # noqa: E731
    c.ob("PRICES=table", [F(x) for x in real(utils.PRICES)] == TABLE)
    c.ob("PRICES_FLOAT=table", [F(decimal.Decimal(repr(x))) for x in real(utils.PRICES_FLOAT)] == TABLE)
    c.ob("FINEST=0.01-grid", [F(x) for x in real(utils.FINEST_PRICES)] == [F(n, 100) for n in range(101, 100001)])
    c.ob("PRICES-strictly-increasing", all(a < b for a, b in zip(real(utils.BETDAQ_PRICES), real(utils.BETDAQ_PRICES)[1:])))
    c.ob("BETDAQ-ends", real(utils.BETDAQ_PRICES)[0] == decimal.Decimal("1.01") and real(utils.BETDAQ_PRICES)[-1] == 1000)
    lp = utils.make_line_prices(0.5, 10.5, 1.0)
    c.ob("line-prices-whole-interval", lp == [0.5 + k for k in range(11)])
    lp2 = utils.make_line_prices(0, 5, 0.5)
    c.ob("line-prices-half-interval", lp2 == [0.5 * k for k in range(11)])
    for cur, p in currency_parameters.items():
        cl = BetfairClient(betting_client=cm.NS(lightweight=False, username="u"))
        cl.account_details = cm.NS(currency_code=cur)
        c.ob("betfair-client.%s.minimums" % cur, (cl.min_bet_size, cl.min_bet_payout, cl.min_bsp_liability) == (
            p["min_bet_size"], p["min_bet_payout"], p["min_bsp_liability"]))
    # call-order independence (concrete enumeration, supplementary to H17a): rounding a number on one ladder must not
    # influence rounding it on the other
    def nearest(x, table):
        fx = F(decimal.Decimal(repr(x)))
        best = min(table, key=lambda t: (abs(t - fx), -t))  # ROUND_HALF_UP: the upper tick on a tie
        return float(best)
    grid = sorted(set([float(t) for t in TABLE[::7]] + [float((a + b) / 2) for a, b in zip(TABLE, TABLE[1:])][::5] + [2.51, 2.53, 6.1, 7.35, 33.0, 206.0, 999.0]))
    bad = []
    for x in grid:
        a = utils.get_nearest_price(x, utils.BETDAQ_CUTOFFS)
        b = utils.get_nearest_price(x)
        a2 = utils.get_nearest_price(x, utils.BETDAQ_CUTOFFS)
        if b != nearest(x, TABLE) or a != a2:
            bad.append(x)
    c.ob("nearest-price.independent-of-call-order (%d numbers, both ladders)" % len(grid), not bad)
    # floating-point neighbours of ticks and of tick mid-points (the property's quantifier names them; the IEEE layer is not
    # modelled symbolically, so they are enumerated concretely): nearest price is still the closest tick, and an order priced one
    # ulp off a tick is not on the ladder
    import math
    bad_n, bad_v = [], []
    ticks = [float(t) for t in TABLE]
    mids = [float((a + b) / 2) for a, b in zip(TABLE, TABLE[1:])]
    for x in ticks[::3] + mids[::3]:
        for y in (math.nextafter(x, 0.0), math.nextafter(x, 2000.0)):
            if 1.01 < y < 1000 and utils.get_nearest_price(y) != nearest_exact(y):
                bad_n.append(y)
    c.ob("nearest-price.float-neighbours-of-ticks-and-midpoints", not bad_n, first=str(bad_n[:3]))
    fl, (sclient,), (strategy,) = cm.new_sim()
    market = cm.add_market(fl, cm.book([cm.runner(1)]))
    with cm.config_set(simulated=True):
        for x in ticks[::25] + [1.1 + 2.2, 0.7 + 0.6]:
            for y in (math.nextafter(x, 0.0), math.nextafter(x, 2000.0), x):
                on = F(decimal.Decimal(repr(y))) in TABLE_SET
                o = cm.mk_limit(strategy, "BACK", y, 50.0)
                acc = market.place_order(o)
                if acc != on:
                    bad_v.append(y)
    c.ob("order-validation.float-neighbours-of-ticks-refused", not bad_v, first=str(bad_v[:3]))
    c.cover("ladders")


SIZES_K = [0, 0.01, 0.5, 0.999, 1.0, 1.995, 2.0, 9.99, 10.0, 19.99, 20.0, 400.0]
PRICES_V = [0.99, 1.0, 1.005, 1.01, 1.5, 2.0, 2.01, 2.02, 3.03, 3.05, 5.05, 5.1, 29.5, 30.0, 31.0, 110.0, 105.0, 1000.0, 1001.0]
CURRENCIES = ["GBP", "EUR", "USD", "HUF", "ISK"]


def h17c(c, mode="P"):
    """OrderValidation through market.place_order on real orders: accepted <=> price on the ladder of its definition and
    size/liability positive with <= 2dp and the account's minimum stake / payout / SP-liability rules"""
    with cm.config_set(simulated=True):
        kind = c.choose("kind", ["LIMIT-CLASSIC", "LIMIT-FINEST", "LIMIT-LINE", "LOC", "MOC", "BETDAQ"])
        side = c.choose("side", ["BACK", "LAY"])
        cur = c.choose("currency", CURRENCIES)
        mbv = c.choose("min_bet_validation", [True, False])
        ckind = c.choose("client", ["simulated", "betfair"]) if kind != "BETDAQ" else "simulated"
        c.tag("kind", kind); c.tag("currency", cur)
        fl, (sclient,), (strategy,) = cm.new_sim(client_kwargs=dict(min_bet_validation=mbv), strategy_kwargs=dict(max_live_trade_count=10))
        market = cm.add_market(fl, cm.book([cm.runner(1)]))
        if ckind == "betfair":
            # the account's currency comes from the exchange through the real update_account_details(); a later poll may fail
            # (API error swallowed by the client): the account is still the same account
            from betfairlightweight.exceptions import BetfairError
            polls = {"n": 0}
            history = c.choose("account_polls", ["ok", "ok,fail", "fail,ok"])
            failing = history != "ok"
            bad = {"ok": (), "ok,fail": (2,), "fail,ok": (1,)}[history]

            def details():
                polls["n"] += 1
                if polls["n"] in bad:
                    raise BetfairError("scripted")
                return cm.NS(currency_code=cur)

            def funds():
                if polls["n"] in bad:
                    raise BetfairError("scripted")
                return cm.NS(available_to_bet_balance=1000.0)

            client = BetfairClient(betting_client=cm.NS(lightweight=False, username="live", account=cm.NS(get_account_details=details, get_account_funds=funds)),
                                   min_bet_validation=mbv)
            client.execution = fl.simulated_execution
            client.update_account_details()
            if history == "fail,ok":
                # the first poll failed: an order validated in that window only knows the fall-back minimums; nothing of that may stick once
                # the account's currency is known
                probe = cm.mk_limit(strategy, "BACK", 2.0, 50.0, selection_id=1)
                market.place_order(probe, client=client)
                fl.handler_queue.clear()
                del market.blotter._orders[probe.id]  # (the probe is not part of what follows)
                market.blotter._live_orders.clear()
            if failing:
                client.update_account_details()
                c.cover("failed-account-poll")
        else:
            client = sclient
            client.account_details = cm.NS(currency_code=cur)
        par = currency_parameters[cur]
        if mode == "P":
            price = c.mills("price", 0, 1100000)
            size = c.pick("size", SIZES_K)
        else:
            price = c.pick("price", PRICES_V)
            size = c.mills("size", 0, 500000)
        tr = Trade(cm.MID, 1, 0, strategy)
        if kind.startswith("LIMIT"):
            ld = {"LIMIT-CLASSIC": "CLASSIC", "LIMIT-FINEST": "FINEST", "LIMIT-LINE": "LINE_RANGE"}[kind]
            lri = None
            if ld == "LINE_RANGE":
                iv = c.choose("line_interval", [1.0, 0.5, "from-2.5", "max-off-grid"])
                lri = {1.0: cm.NS(min_unit_value=0.5, max_unit_value=6.5, interval=1.0), 0.5: cm.NS(min_unit_value=0, max_unit_value=3, interval=0.5),
                       "from-2.5": cm.NS(min_unit_value=2.5, max_unit_value=6.5, interval=1.0),
                       # (a range whose width is not a multiple of the interval: its maximum is not a line)
                       "max-off-grid": cm.NS(min_unit_value=0, max_unit_value=6.5, interval=1.0)}[iv]
                price = c.pick("line", [-0.5, 0, 0.25, 0.5, 1.0, 1.5, 2.5, 3.0, 3.5, 6.5, 7.5])
            o = cm.mk_limit(strategy, side, price, size, ladder_def=ld, line_range_info=lri, trade=tr)
        elif kind == "LOC":
            o = cm.mk_loc(strategy, side, size, price, trade=tr)
        elif kind == "MOC":
            o = cm.mk_moc(strategy, side, size, trade=tr)
        else:
            o = tr.create_betdaq_order(side, BetdaqLimitOrder(price, size, 1, 0, 0), BetdaqOrder)
        with c.guard("place_order"):
            accepted = market.place_order(o, client=client)
        c.observe("accepted", accepted)
        # ---- oracle
        pos_2dp = c.And(size > 0, round(size * 100) == size * 100) if c.mode == "conc" else c.And(size > 0, core.SymBool(core.z3.IsInt(size.r_() * 100)) if size.dp is None else _is_2dp(size))
        if kind == "LIMIT-CLASSIC" or kind == "LOC":
            on = _member(ORACLE, price)
        elif kind == "LIMIT-FINEST":
            on = _member(FINEST, price)
        elif kind == "LIMIT-LINE":
            if iv == 1.0:
                on = c.Or(*[price == 0.5 + k for k in range(7)])
            elif iv == 0.5:
                on = c.Or(*[price == 0.5 * k for k in range(7)])
            elif iv == "max-off-grid":
                on = c.Or(*[price == 0.0 + k for k in range(7)])
            else:
                on = c.Or(*[price == 2.5 + k for k in range(5)])
        elif kind == "BETDAQ":
            on = _member(SymList(list(utils.BETDAQ_PRICES.data if hasattr(utils.BETDAQ_PRICES, "data") else utils.BETDAQ_PRICES)), price)
        else:
            on = True
        if kind.startswith("LIMIT"):
            minrule = c.Not(c.And(size < par["min_bet_size"], price * size < par["min_bet_payout"])) if mbv else True
        elif kind in ("LOC", "MOC"):
            minrule = (size >= (par["min_bet_size"] if side == "BACK" else par["min_bsp_liability"])) if mbv else True
        else:
            minrule = True
        valid = c.And(on, pos_2dp, minrule)
        c.ob("accepted<=>valid", accepted == valid if isinstance(valid, bool) else (valid if accepted else c.Not(valid)))
        if accepted:
            c.cover("accepted")
            c.ob("accepted.queued", len(fl.handler_queue) == 1)
        else:
            c.cover("refused")
            c.ob("refused.violation", o.status == OrderStatus.VIOLATION)
            c.ob("refused.not-sent", len(fl.handler_queue) == 0)
            c.ob("refused.not-in-blotter", o.id not in market.blotter)


def _is_2dp(s):
    if s.dp is not None and s.dp <= 2:
        return True
    m = 10 ** (s.dp - 2)
    return core.SymBool(s.n % m == 0)


OUT = ["floating-point neighbours of tick mid-points (IEEE layer not modelled; only replayed when the solver proposes them)",
       "Betdaq ladder: only consistency of get_nearest_price / price_ticks_away with the live BETDAQ_PRICES (no independent table offline)"]
HARNESSES = [
    Harness("H17l", h17l, pattern="concrete table comparison", requires=["ladders"], selfcheck=False),
    Harness("H17a", h17a, quick=dict(ladder="betfair"), thorough=dict(ladder="betfair", real_input=True), pattern="P1 kernel-with-oracle", requires=["nearest"], outside=OUT),
    Harness("H17a-betdaq", h17a, quick=dict(ladder="betdaq"), pattern="P1 kernel-with-oracle", requires=["nearest"], outside=OUT),
    Harness("H17b", h17b, quick=dict(ladder="betfair"), pattern="P1 kernel-with-oracle", requires=["ticks-away"], outside=OUT),
    Harness("H17b-betdaq", h17b, quick=dict(ladder="betdaq"), pattern="P1 kernel-with-oracle", requires=["ticks-away"], outside=OUT),
    Harness("H17c-P", h17c, quick=dict(mode="P"), pattern="P1 kernel-with-oracle", requires=["accepted", "refused"], outside=OUT + ["sizes outside %s in mode P" % SIZES_K]),
    Harness("H17c-S", h17c, quick=dict(mode="S"), pattern="P1 kernel-with-oracle", requires=["accepted", "refused"], outside=OUT + ["prices outside %s in mode S" % PRICES_V]),
]
META = {"assumptions": ["inputs on the 0.001 grid (scaled integers); thorough H17a also a symbolic real"]}
