"""C11 Order-stream reconciliation converges on the exchange's view"""
from symx.run import Harness
from symx import core
from flumine.order.order import OrderStatus
from flumine.order.orderpackage import OrderPackageType
from flumine.order.trade import Trade, TradeStatus
from . import common as cm
from . import lifecycle as lc
from . import position as pos

S = OrderStatus


class DeferredPool:
    """ThreadPoolExecutor stand-in that keeps the execution bodies until the harness delivers them (handler granularity)"""
    _threads = ()
    _work_queue = cm.NS(qsize=lambda: 0)

    def __init__(self, execution=None, at_once=False):
        self.pending = []
        self.at_once = at_once
        self.cache = {}
        if at_once:
            # the request reaches the exchange when it is made (the API call of the execution body happens now, against the bet
            # table as it is now); what is deferred is flumine's processing of the answer
            self.real = {k: getattr(execution, k) for k in ("place", "cancel", "update", "replace")}
            for k in self.real:
                setattr(execution, k, self._answer(k))

    def _answer(self, kind):
        def call(order_package, session):
            hit = self.cache.pop(order_package.id, None)
            if hit is None:
                return self.real[kind](order_package, session)
            if hit[0] == "exc":
                raise hit[1]
            return hit[1]
        return call

    def submit(self, fn, *a, **kw):
        if self.at_once:
            pkg, session = a[0], a[1]
            kind = fn.__name__.replace("execute_", "")
            try:
                self.cache[pkg.id] = ("ok", self.real[kind](pkg, session))
            except Exception as e:  # noqa
                self.cache[pkg.id] = ("exc", e)
        self.pending.append((fn, a, kw))

    def run_one(self):
        fn, a, kw = self.pending.pop(0)
        fn(*a, **kw)

    def shutdown(self, wait=True):
        pass


class Exchange:
    """a bet table; the API side answers against it at the moment the *request* is made, the answer is handed to flumine when
    the harness delivers the deferred execution body"""

    def __init__(self):
        self.bets = {}  # bet_id -> dict
        self.next_id = 7000
        self.async_ = False
        self.published = None  # state of the table when the stream last published it
        self.async_timeout = False

    def _new(self, ref, side, price, size, selection_id, handicap):
        self.next_id += 1
        bid = str(self.next_id)
        self.bets[bid] = dict(bet_id=bid, ref=ref, side=side, price=price, size=size, matched=0.0, cancelled=0.0, lapsed=0.0, status="EXECUTABLE",
                              selection_id=selection_id, handicap=handicap)
        return bid

    def remaining(self, b):
        return round(b["size"] - b["matched"] - b["cancelled"] - b["lapsed"], 2)

    # --- API (called from the deferred execution body: the table is already up to date, this builds the reports)
    def place_orders(self, market_id, instructions, **kw):
        reps = []
        for ins in instructions:
            lo = ins["limitOrder"]
            bid = self._new(ins["customerOrderRef"], ins["side"], lo["price"], lo["size"], ins["selectionId"], ins.get("handicap", 0))
            if kw.get("async_"):
                # (an asynchronous request may also be answered TIMEOUT: the exchange took it and will place the bet)
                reps.append(lc.place_report("TIMEOUT", None, None) if self.async_timeout else lc.place_report("SUCCESS", "PENDING", None))
            else:
                reps.append(lc.place_report("SUCCESS", "EXECUTABLE", bid))
        return lc.response(place_instruction_reports=reps)

    def cancel_orders(self, market_id, instructions, **kw):
        reps = []
        for ins in instructions:
            b = self.bets[ins["betId"]]
            rem = self.remaining(b)
            if rem <= 0:
                reps.append(lc.cancel_report("FAILURE", b["bet_id"], "BET_TAKEN_OR_LAPSED"))
                continue
            red = ins.get("sizeReduction") or rem
            red = min(red, rem)
            b["cancelled"] = round(b["cancelled"] + red, 2)
            if self.remaining(b) <= 0:
                b["status"] = "EXECUTION_COMPLETE"
            reps.append(lc.cancel_report("SUCCESS", b["bet_id"], None, size_cancelled=red))
        return lc.response(cancel_instruction_reports=reps)

    def replace_orders(self, market_id, instructions, **kw):
        reps = []
        for ins in instructions:
            b = self.bets[ins["betId"]]
            rem = self.remaining(b)
            if rem <= 0:
                reps.append(lc.Rep(status="FAILURE", cancel_instruction_reports=lc.cancel_report("FAILURE", b["bet_id"], "BET_TAKEN_OR_LAPSED"),
                                   place_instruction_reports=lc.place_report("FAILURE", None, None, "ERROR_IN_ORDER")))
                continue
            b["cancelled"] = round(b["cancelled"] + rem, 2)
            b["status"] = "EXECUTION_COMPLETE"
            nb = self._new(b["ref"], b["side"], ins["newPrice"], rem, b["selection_id"], b["handicap"])
            reps.append(lc.Rep(status="SUCCESS", cancel_instruction_reports=lc.cancel_report("SUCCESS", b["bet_id"], None, size_cancelled=rem),
                               place_instruction_reports=lc.place_report("SUCCESS", "EXECUTABLE", nb, instruction=lc.Rep(limit_order=lc.Rep(price=ins["newPrice"], size=rem)))))
        return lc.response(replace_instruction_reports=reps)

    def update_orders(self, market_id, instructions, **kw):
        # (a bet that is no longer executable cannot be updated)
        return lc.response(update_instruction_reports=[lc.update_report("SUCCESS") if self.bets[ins["betId"]]["status"] == "EXECUTABLE"
                                                       else lc.update_report("FAILURE", "BET_TAKEN_OR_LAPSED") for ins in instructions])

    # --- exchange side events
    def fill(self, bid, amount):
        b = self.bets[bid]
        amt = min(amount, self.remaining(b))
        b["matched"] = round(b["matched"] + amt, 2)
        if self.remaining(b) <= 0:
            b["status"] = "EXECUTION_COMPLETE"

    def lapse(self, bid):
        b = self.bets[bid]
        b["lapsed"] = round(b["lapsed"] + self.remaining(b), 2)
        b["status"] = "EXECUTION_COMPLETE"

    def state(self):
        return sorted((b["bet_id"], b["matched"], b["cancelled"], b["lapsed"], b["status"]) for b in self.bets.values())

    def snapshot(self):
        self.published = self.state()
        self.published_complete = getattr(self, "published_complete", set()) | set(b["bet_id"] for b in self.bets.values() if b["status"] == "EXECUTION_COMPLETE")
        return [cm.current_order(b["ref"], b["bet_id"], selection_id=b["selection_id"], handicap=b["handicap"], side=b["side"], price=b["price"],
                                 size=b["size"], status=b["status"], size_matched=b["matched"], size_remaining=self.remaining(b),
                                 average_price_matched=b["price"] if b["matched"] else 0.0, size_cancelled=b["cancelled"], size_lapsed=b["lapsed"])
                for b in self.bets.values()]


ACTIONS = ["request-cancel", "request-partial-cancel", "request-replace", "request-update", "deliver-response", "exchange-fill", "exchange-partial-fill", "exchange-lapse",
           "snapshot", "stale-snapshot"]


def _agree(c, fl, ex, market, strategy, tag):
    """local orders vs the exchange's bet table at quiescence"""
    for bid, b in ex.bets.items():
        cands = [o for o in market.blotter if o.bet_id == bid]
        c.ob("%s.bet-%s.exactly-one-local-order" % (tag, bid[-1]), len(cands) == 1, found=len(cands))
        if len(cands) != 1:
            continue
        o = cands[0]
        # (a replacement order carries its own local reference: the exchange keeps the replaced bet's reference for the new
        # bet, flumine resolves it through the bet id - so references are not compared)
        c.ob("%s.bet-%s.size-matched" % (tag, bid[-1]), o.size_matched == b["matched"], local=o.size_matched, exchange=b["matched"], replacement_bet=(bid != min(ex.bets)),
             bet_untouched=(b["matched"] == 0 and b["cancelled"] == 0 and b["lapsed"] == 0))
        c.ob("%s.bet-%s.size-remaining" % (tag, bid[-1]), o.size_remaining == ex.remaining(b), local=o.size_remaining, exchange=ex.remaining(b), replacement_bet=(bid != min(ex.bets)),
             bet_untouched=(b["matched"] == 0 and b["cancelled"] == 0 and b["lapsed"] == 0))
        done = b["status"] == "EXECUTION_COMPLETE"
        # (known finding F18 is specific to the coincidence 'amount cancelled == what then remains at the exchange')
        c.ob("%s.bet-%s.completeness" % (tag, bid[-1]), o.complete == done, local=o.status.name, exchange=b["status"],
             cancelled_equals_remainder=(b["cancelled"] > 0 and b["cancelled"] == ex.remaining(b)), replacement_bet=(bid != min(ex.bets)))
        if done:
            c.ob("%s.bet-%s.left-live-list" % (tag, bid[-1]), o not in market.blotter._live_orders)
    for t in market.blotter._trades:
        if all(o.complete for o in t.orders if o.id in market.blotter):
            c.ob("%s.trade-complete" % tag, t.status == TradeStatus.COMPLETE, status=t.status.name)
    lc.recount_runner_context(c, strategy, market, tag=tag)
    lc.blotter_coherence(c, market, list(market.blotter), tag=tag)


def _attribution(c, market, tag):
    """what the stream said about one bet is never stored on an order that carries another bet id"""
    for o in market.blotter:
        co = o.responses.current_order
        if co is not None and o.bet_id is not None:
            c.ob("%s.stream-update-attributed-to-own-bet" % tag, co.bet_id == o.bet_id, order_bet=o.bet_id, update_bet=co.bet_id)


def h11a(c, K=3, async_place=False, on_world=None, epilogue_fill=False):
    """K symbolic steps from {requests, delivery of an outstanding response, exchange-side fill / lapse, current or stale snapshot}
    against a bet table; at quiescence (all responses delivered, latest snapshot processed twice) flumine agrees with the exchange"""
    with cm.config_set(simulated=False, async_place_orders=async_place):
        ex = Exchange()
        if async_place:
            ex.async_timeout = c.choose("async_placement_answer", ["SUCCESS/PENDING", "TIMEOUT"]) == "TIMEOUT"
        fl, client, (strategy,) = cm.new_live(exchange=ex)
        at_once = c.choose("request_reaches_exchange", ["when-its-answer-is-processed", "at-once"]) == "at-once"
        c.tag("at_once", at_once)
        pool = DeferredPool(fl.betfair_execution, at_once)
        fl.betfair_execution._thread_pool = pool
        market = fl._add_market(cm.MID, cm.book([cm.runner(1), cm.runner(2)], version=7))
        if on_world is not None:
            on_world(ex, fl, market)
        o = cm.mk_limit(strategy, "BACK", 2.0, 10.0)
        with c.guard("place"):
            market.place_order(o, force=True)
        # the table is updated when the request reaches the exchange; delivery of the answer is a separate step
        if c.choose("placement_response_delivered_first", [True, False]):
            pool.run_one()
        old_snapshots = []
        for k in range(K):
            act = c.choose("action%d" % k, ACTIONS)
            c.tag("a%d" % k, act)
            live_local = [x for x in market.blotter if x.status == S.EXECUTABLE and x.bet_id]
            open_bets = [b for b in ex.bets.values() if b["status"] == "EXECUTABLE"]
            with c.guard("step%d:%s" % (k, act)):
                if act in ("request-cancel", "request-partial-cancel", "request-replace", "request-update"):
                    if not live_local:
                        continue
                    x = live_local[0]
                    if act == "request-cancel":
                        market.cancel_order(x, force=True)
                    elif act == "request-partial-cancel":
                        red = c.choose("reduction%d" % k, [3.0, 6.0])
                        if x.size_remaining <= red:
                            continue
                        market.cancel_order(x, red, force=True)
                    elif act == "request-update":
                        market.update_order(x, "PERSIST" if x.order_type.persistence_type != "PERSIST" else "LAPSE", force=True)
                    else:
                        market.replace_order(x, [3.0, 3.05, 3.1, 3.15, 3.2][k], force=True)
                    c.cover("request")
                elif act == "deliver-response":
                    if pool.pending:
                        pool.run_one()
                        c.cover("response-delivered-late")
                elif act in ("exchange-fill", "exchange-partial-fill"):
                    if open_bets:
                        ex.fill(open_bets[-1]["bet_id"], 100.0 if act == "exchange-fill" else 4.0)
                        c.cover("exchange-fill")
                elif act == "exchange-lapse":
                    if open_bets:
                        ex.lapse(open_bets[-1]["bet_id"])
                elif act == "snapshot":
                    snap = ex.snapshot()
                    old_snapshots.append(snap)
                    fl._process_current_orders(cm.current_orders_event(client, snap))
                    _attribution(c, market, "step%d" % k)
                    c.cover("snapshot")
                elif act == "stale-snapshot":
                    if old_snapshots:
                        # the snapshot published last is delivered again: it may be stale by now (the exchange has moved on), it is never OLDER
                        # than what was already processed - the stream and the handler queue keep publications in order
                        fl._process_current_orders(cm.current_orders_event(client, old_snapshots[-1]))
                        c.cover("stale-snapshot")
        # ---- quiescence: every outstanding answer is delivered, then the latest snapshot (twice: duplicates are harmless)
        with c.guard("quiescence"):
            while pool.pending:
                pool.run_one()
            if ex.published != ex.state():
                # the stream publishes a market's orders when something changed at the exchange since it last did
                for _ in range(2):  # (twice: duplicates are harmless)
                    fl._process_current_orders(cm.current_orders_event(client, ex.snapshot()))
            else:
                # nothing changed since the last publication: the stream stays silent, flumine has what it will ever get
                c.cover("latest-snapshot-processed-before-the-last-response")
                c.tag("stream_silent_at_the_end", True)
        _attribution(c, market, "quiescent")
        _agree(c, fl, ex, market, strategy, "quiescent")
        if len(ex.bets) > 1:
            c.cover("replaced-bet")
        # what the stream reported complete (and flumine processed) is not live afterwards
        for o_ in market.blotter:
            if o_.bet_id in getattr(ex, "published_complete", set()):
                c.ob("quiescent.reported-complete-by-the-stream=>not-live-afterwards", o_.status not in lc.LIVE_STATUS, status=o_.status.name, bet_id=o_.bet_id,
                     replacement_bet=(o_.bet_id != min(ex.bets)))
        if epilogue_fill:
            # epilogue (C03 finality): whatever still rests at the exchange is now matched and published
            with c.guard("epilogue"):
                for b in list(ex.bets.values()):
                    if b["status"] == "EXECUTABLE":
                        ex.fill(b["bet_id"], 1000.0)
                fl._process_current_orders(cm.current_orders_event(client, ex.snapshot()))
        c.cover("run")


def h11b(c, n=2):
    """crash / restart: a fresh framework instance with the same strategies receives a snapshot of the same bet table: every
    unknown bet is adopted exactly once into the right market and strategy and exposures / live-trade accounting equal those of
    the pre-crash instance; references with an unknown strategy hash change nothing"""
    with cm.config_set(simulated=False):
        # ---- the bet table (symbolic sizes) and the pre-crash instance that placed the bets
        fl1, client1, (s1,) = cm.new_live()
        m1 = fl1._add_market(cm.MID, cm.book([cm.runner(1), cm.runner(2)], version=7))
        snap = []
        lookups = set()
        for i in range(n):
            side = c.choose("b%d_side" % i, ["BACK", "LAY"])
            hc = c.choose("b%d_handicap" % i, [0, 1.5])
            sel = c.choose("b%d_selection" % i, [1, 2])
            price = c.pick("b%d_price" % i, [1.5, 2.0, 3.5, 11.0])
            size = c.cents("b%d_size" % i, 1, 100000)
            kind = c.choose("b%d_kind" % i, ["LIMIT", "LIMIT_ON_CLOSE", "MARKET_ON_CLOSE"])
            if kind != "LIMIT":
                # a starting-price bet waiting for the reconciliation: the exchange reports its liability separately, the size
                # field of priceSize is whatever the exchange puts there (any value)
                liab = c.cents("b%d_liability" % i, 1, 100000)
                ps_size = c.cents("b%d_price_size_size" % i, 0, 100000)
                o = cm.mk_loc(s1, side, liab, price, selection_id=sel, handicap=hc) if kind == "LIMIT_ON_CLOSE" else cm.mk_moc(s1, side, liab, selection_id=sel, handicap=hc)
                o.update_client(client1)
                o.bet_id = str(600 + i)
                o.responses.placed(lc.place_report("SUCCESS", "EXECUTABLE", o.bet_id))
                m1.blotter[o.id] = o
                o.status = S.EXECUTABLE
                s1.get_runner_context(*o.lookup).place(o.trade.id)
                snap.append(cm.current_order(o.customer_order_ref, o.bet_id, selection_id=sel, handicap=hc, side=side, price=price if kind == "LIMIT_ON_CLOSE" else 0.0,
                                             size=ps_size, status="EXECUTABLE", size_matched=0, size_remaining=0, order_type=kind, bsp_liability=liab,
                                             persistence_type="MARKET_ON_CLOSE"))
                lookups.add((cm.MID, sel, hc))
                c.cover("sp-bet")
                continue
            state = c.choose("b%d_state" % i, ["resting", "part-matched", "complete-matched", "complete-cancelled"])
            if state == "resting":
                m, canc = 0, 0
            elif state == "part-matched":
                m = c.cents("b%d_matched" % i, 1, 100000)
                c.assume(m < size)
                canc = 0
            elif state == "complete-matched":
                m, canc = size, 0
            else:
                m, canc = 0, size
            rem = size - m - canc
            status = "EXECUTABLE" if state in ("resting", "part-matched") else "EXECUTION_COMPLETE"
            o = cm.mk_limit(s1, side, price, size, selection_id=sel, handicap=hc)
            o.update_client(client1)
            o.bet_id = str(600 + i)
            o.responses.placed(lc.place_report("SUCCESS", "EXECUTABLE", o.bet_id))
            m1.blotter[o.id] = o
            o.status = S.EXECUTABLE
            s1.get_runner_context(*o.lookup).place(o.trade.id)
            co = cm.current_order(o.customer_order_ref, o.bet_id, selection_id=sel, handicap=hc, side=side, price=price, size=size, status=status,
                                  size_matched=m, size_remaining=rem, average_price_matched=price if state in ("part-matched", "complete-matched") else 0,
                                  size_cancelled=canc)
            snap.append(co)
            lookups.add((cm.MID, sel, hc))
        # a bet of a strategy the restarted instance does not know
        ghost_s = cm.RecordingStrategy(market_filter={}, name="someone-else")
        g = Trade(cm.MID, 1, 0, ghost_s).create_order("BACK", cm.LimitOrder(2.0, 2.0))
        snap_unknown = cm.current_order(g.customer_order_ref, "999", size=2.0, market_id="1.199999999")
        with c.guard("pre-crash-snapshot"):
            fl1._process_current_orders(cm.current_orders_event(client1, snap + [snap_unknown]))
        # ---- restart: new instance, same strategy name (hence the same hash), empty state
        fl2, client2, (s2,) = cm.new_live()
        n_dup = c.choose("snapshot_deliveries", [1, 2])
        with c.guard("post-restart-snapshot"):
            for _ in range(n_dup):
                fl2._process_current_orders(cm.current_orders_event(client2, [snap_unknown] + snap))
        m2 = fl2.markets.markets.get(cm.MID)
        c.ob("restart.market-created", m2 is not None)
        if m2 is None:
            return
        c.ob("restart.every-bet-adopted-exactly-once", sorted(o.bet_id for o in m2.blotter) == sorted(co.bet_id for co in snap), got=len(m2.blotter))
        c.ob("restart.unknown-strategy-ignored", all(o.bet_id != "999" for o in m2.blotter) and all(o.bet_id != "999" for o in m1.blotter))
        c.ob("restart.unknown-strategy-leaves-no-trace", sorted(fl2.markets.markets) == [cm.MID] and sorted(fl1.markets.markets) == [cm.MID],
             markets=str(sorted(fl2.markets.markets)))
        for o in m2.blotter:
            c.ob("restart.adopted-into-right-strategy", o.trade.strategy is s2)
        for lk in sorted(lookups):
            e1 = m1.blotter.get_exposures(s1, lk)
            e2 = m2.blotter.get_exposures(s2, lk)
            for key in ("worst_possible_profit_on_win", "worst_possible_profit_on_lose", "matched_profit_if_win", "matched_profit_if_lose"):
                c.ob("restart.exposure.%s[%s,%s]" % (key, lk[1], lk[2]), e1[key] == e2[key])
            c.ob("restart.selection-exposure[%s,%s]" % (lk[1], lk[2]), m1.blotter.selection_exposure(s1, lk) == m2.blotter.selection_exposure(s2, lk))
            r1, r2 = s1.get_runner_context(*lk), s2.get_runner_context(*lk)
            c.ob("restart.live-trade-count[%s,%s]" % (lk[1], lk[2]), r1.live_trade_count == r2.live_trade_count, before=r1.live_trade_count, after=r2.live_trade_count)
            c.ob("restart.trade-count[%s,%s]" % (lk[1], lk[2]), r1.trade_count == r2.trade_count)
        for key, rc in s2._invested.items():
            c.ob("restart.no-accounting-for-untouched-runners", key in lookups or (rc.trade_count == 0 and rc.live_trade_count == 0), key=str(key))
        lc.blotter_coherence(c, m2, list(m2.blotter), tag="restart")
        c.cover("restart")


def h11_betdaq(c):
    """Betdaq (polling, C03 world H03b-betdaq): one request through the real BetdaqExecution with polls before and after the answer - a poll that
    reports the order live (Unmatched, or Suspended while the market is suspended) never completes it locally nor drops it from live_orders"""
    from .c03 import h03b_betdaq
    from .c06 import _Only
    h03b_betdaq(_Only(c, ("poll-reporting-the-order-live", "no-exception")))


OUT = ["thread schedules below handler granularity", "the socket / listener layer", "Betdaq polling beyond H11-betdaq (one order, one request, one poll before and one after the answer)", "more than 2 bets / K steps"]
HARNESSES = [
    Harness("H11-betdaq", h11_betdaq, pattern="P5 fault schedule as a variable (Betdaq polling)", requires=["handled", "poll-in-flight"], outside=OUT, selfcheck=False),
    Harness("H11a", h11a, quick=dict(K=3), thorough=dict(K=5), pattern="P3/P5 schedule as a variable", requires=["run", "request", "response-delivered-late", "exchange-fill", "snapshot", "stale-snapshot", "replaced-bet"],
            outside=OUT, max_paths=(400000, 5000000), wall_s=(300, 3000), selfcheck=False),
    Harness("H11a-async", h11a, quick=dict(K=3, async_place=True), thorough=dict(K=4, async_place=True), pattern="P3/P5 schedule as a variable", requires=["run", "snapshot"],
            outside=OUT, max_paths=(400000, 5000000), wall_s=(300, 3000), selfcheck=False),
    Harness("H11b", h11b, quick=dict(n=2), thorough=dict(n=3), pattern="P4 relational (pre-crash vs restarted instance)", requires=["restart", "sp-bet"], outside=OUT,
            max_paths=(400000, 5000000), wall_s=(300, 3000)),
]
META = {"assumptions": ["handler granularity: each execute_* body and each snapshot is atomic; the exchange answers at the moment the request is made"]}
