"""C16 Reported exposure equals the true worst case"""
from symx.run import Harness
from flumine.order.order import OrderStatus
from . import common as cm
from . import lifecycle as lc
from . import position as pos

TOL = 0.01  # get_exposures rounds the matched and the unmatched component to the cent separately (2 x half a cent)


def _world(c):
    fl, (client,), (strategy,) = cm.new_sim()
    bk = cm.book([cm.runner(1), cm.runner(2), cm.runner(3)])
    market = cm.add_market(fl, bk)
    return fl, client, strategy, market, bk


def h16a(c, n=2, mode="S", statuses="quick", kinds=None, new_kinds=None, part_cancel=False):
    """Blotter.get_exposures / selection_exposure on n real orders in arbitrary state vs the brute-force oracle;
    also exclusion=o and new_order=o (H16c)"""
    sts = pos.STATUS_QUICK if statuses == "quick" else pos.STATUS_ALL
    with cm.config_set(simulated=True):
        fl, client, strategy, market, bk = _world(c)
        orders, ds = [], []
        for i in range(n):
            o, d = pos.mk_position_order(c, "o%d" % i, strategy, mode, statuses=sts, kinds=kinds or pos.KINDS, part_cancel=part_cancel)
            pos.install(fl, market, strategy, o, d, 100 + i)
            orders.append(o)
            ds.append(d)
        if mode == "P" and c.choose("orders_sent_asynchronously", [False, True]):
            # (how an order was sent makes no difference to what counts: an order awaiting its acknowledgement is left out either way)
            for o in orders:
                o.async_ = True
        variant = c.choose("variant", ["plain", "exclusion", "new_order"])
        c.tag("variant", variant)
        lookup = (cm.MID, 1, 0)
        kw, ods = {}, list(ds)
        if variant == "exclusion":
            kw["exclusion"] = orders[0]
            ods = ds[1:]
        elif variant == "new_order":
            no, nd = pos.mk_position_order(c, "new", strategy, mode, new=True, kinds=new_kinds or kinds or pos.KINDS, new_tif=True)
            no.update_client(client)
            kw["new_order"] = no
            ods = ds + [nd]
        sig0 = lc.views_sig(market.blotter)
        with c.guard("get_exposures"):
            ex = market.blotter.get_exposures(strategy, lookup, **kw)
        # a what-if query reads the book, it never writes to it
        c.ob("query-leaves-the-book-unchanged", lc.views_sig(market.blotter) == sig0)
        ww, wl = pos.worst_case(c, ods)
        c.observe("worst_possible_profit_on_win", ex["worst_possible_profit_on_win"])
        c.observe("worst_possible_profit_on_lose", ex["worst_possible_profit_on_lose"])
        c.ob("worst_possible_profit_on_win=oracle", c.close(ex["worst_possible_profit_on_win"], ww, TOL))
        c.ob("worst_possible_profit_on_lose=oracle", c.close(ex["worst_possible_profit_on_lose"], wl, TOL))
        c.ob("components-sum.win", c.close(ex["worst_possible_profit_on_win"],
                                         ex["matched_profit_if_win"] + ex["worst_potential_unmatched_profit_if_win"] + (
                                             ex["worst_possible_profit_on_win"] - ex["matched_profit_if_win"] - ex["worst_potential_unmatched_profit_if_win"]), 0))
        c.cover("exposure")
        if variant == "plain":
            with c.guard("selection_exposure"):
                se = market.blotter.selection_exposure(strategy, lookup)
            c.observe("selection_exposure", se)
            orc = c.smax(-c.smin(ww, wl), 0)
            c.ob("selection_exposure=oracle", c.close(se, orc, TOL))
            c.ob("selection_exposure>=0", se >= 0)


def h16b(c, S=2, mode="S", winners=(0, 1, 2), sel0=(1,), extra=(0, 2), rich=False):
    """Blotter.market_exposure vs brute force over every admissible winner set"""
    with cm.config_set(simulated=True):
        fl, client, strategy, market, bk = _world(c)
        per_sel = []
        nord = 0
        for s in range(S):
            ds = []
            k = c.choose("sel%d_orders" % s, list(sel0)) if s == 0 else 1
            for i in range(k):
                o, d = pos.mk_position_order(c, "s%do%d" % (s, i), strategy, mode, selection_id=s + 1,
                                             statuses=pos.STATUS_ALL,
                                             kinds=["LIMIT", "MOC"] if rich or s == 0 else ["LIMIT"], msplits=("none", "part", "all") if rich else ("none", "part"),
                                             part_cancel=rich)
                pos.install(fl, market, strategy, o, d, 100 + nord)
                if nord == 0:
                    first_order = o
                nord += 1
                ds.append(d)
            per_sel.append(ds)
        W = c.choose("number_of_winners", list(winners))
        R = c.choose("number_of_active_runners", [S + x for x in extra])
        bk.number_of_winners = W
        bk.number_of_active_runners = R
        variant = c.choose("variant", ["plain", "new_order_same_sel", "new_order_other_sel", "exclusion", "exclusion+new_order_other_sel"])
        c.tag("variant", variant)
        kw = {}
        if variant.startswith("exclusion"):
            # an order named as exclusion is handled exactly as if it had been removed from the book
            kw["exclusion"] = first_order
            per_sel[0] = per_sel[0][1:]
        if variant not in ("plain", "exclusion"):
            sel = 1 if variant == "new_order_same_sel" else S + 1
            no, nd = pos.mk_position_order(c, "new", strategy, mode, selection_id=sel, new=True, kinds=["LIMIT", "MOC"])
            no.update_client(client)
            kw["new_order"] = no
            if sel == 1:
                per_sel[0] = per_sel[0] + [nd]
            else:
                per_sel.append([nd])
        sig0 = lc.views_sig(market.blotter)
        with c.guard("market_exposure"):
            me = market.blotter.market_exposure(strategy, bk, **kw)
        c.ob("query-leaves-the-book-unchanged", lc.views_sig(market.blotter) == sig0)
        c.observe("market_exposure", me)
        wc = [pos.worst_case(c, ds) for ds in per_sel]
        orc = pos.market_worst(c, wc, W, R)
        # each selection contributes two roundings to each of its figures
        c.ob("market_exposure=oracle", c.close(me, orc, TOL * len(per_sel)))
        c.cover("market")


HARNESSES = [
    Harness("H16a-S", h16a, quick=dict(n=2, mode="S", new_kinds=["LIMIT", "MOC"]), thorough=dict(n=2, mode="S", statuses="all", part_cancel=True), pattern="P1 kernel-with-oracle",
            requires=["exposure"], wall_s=(300, 3000), max_paths=(150000, 5000000),
            outside=["prices outside the finite set %s (sizes: every 2dp value, symbolic)" % pos.PRICES_K, "more than n orders on the selection"]),
    Harness("H16a-P", h16a, quick=dict(n=2, mode="P", kinds=["LIMIT", "LOC"]), thorough=dict(n=2, mode="P", statuses="all", kinds=["LIMIT", "LOC", "MOC"]), pattern="P1 kernel-with-oracle",
            requires=["exposure"], wall_s=(300, 3000), max_paths=(150000, 5000000),
            outside=["sizes outside the finite set %s (prices: every 2dp value in [1.01,1000], symbolic)" % pos.SIZES_K]),
    Harness("H16b", h16b, quick=dict(S=2, mode="S"), thorough=dict(S=2, mode="S", extra=(0, 1, 2)), pattern="P1 kernel-with-oracle", requires=["market"],
            wall_s=(300, 3000), max_paths=(150000, 5000000), outside=["more than S selections with bets, winners > 2", "limit-on-close orders in the market harness (covered by H16a)"]),
]
META = {"assumptions": ["products price x size are kept linear by drawing one factor from a finite set (ite over a selector, no forking); "
                        "H16a-S / H16a-P swap which factor is fully symbolic"]}
