"""C19 Order references are unique, valid and round-trip

Strings go through C-level `str` code that proxies cannot intercept, so the fragments involved are translated from
their *current AST* into z3 sequence terms (DESIGN 2.9).  Anything outside the supported subset is "cannot encode"
(exit 2), except the one-character separator validator, whose domain (every code point) is finite and is then
enumerated exhaustively instead."""
import ast
import sys
import string
import inspect
import textwrap

import z3

from symx.run import Harness
from symx.core import HarnessError
from flumine import utils, config
from flumine.order import order as order_mod
from flumine.order import process as process_mod
from flumine.markets import blotter as blotter_mod
from flumine.order.order import BaseOrder, BetfairOrder
from flumine.order.trade import Trade
from flumine.strategy.strategy import BaseStrategy
from . import common as cm

# the exchange's documented character set for customer references: letters, digits and - . _ + * : ; ~
DOC_VALID = set(string.ascii_letters) | set(string.digits) | set("-._+*:;~")
HEX = "0123456789abcdef"
TIMEOUT = 20000


class CannotEncode(HarnessError):
    pass


class Q:
    """one string query: terms are built with z3's API, the verdict comes from cvc5 (its string solver decides these
    queries in milliseconds where z3's sequence solver is erratic: measured unknown after 30-120 s on some runs); z3 is the
    fallback when cvc5 is not importable or answers unknown.  The SMT-LIB text handed to cvc5 is z3's own rendering of the
    same assertions, so both solvers see the same encoding."""
    stats = {"cvc5": 0, "z3": 0, "secs": 0.0}

    def __init__(self):
        self.s = z3.Solver()
        self.s.set("timeout", 10000)
        self.vals = {}
        self.vars = {}

    def add(self, *a):
        self.s.add(*a)

    def declare(self, *vs):
        for v in vs:
            self.vars[str(v)] = v

    def check(self, name):
        import time
        t0 = time.perf_counter()
        r = self._cvc5()
        if r == "unknown":
            r = str(self.s.check())
            Q.stats["z3"] += 1
            if r == "sat":
                m = self.s.model()
                self.vals = {n: m.eval(v, model_completion=True).as_string() for n, v in self.vars.items()}
        Q.stats["secs"] += time.perf_counter() - t0
        if r == "unknown":
            raise HarnessError("solver unknown on %s (cvc5 and z3)" % name)
        return r

    def _cvc5(self):
        try:
            import cvc5
        except ImportError:
            return "unknown"
        try:
            slv = cvc5.Solver()
            slv.setOption("produce-models", "true")
            slv.setOption("strings-exp", "true")
            slv.setOption("tlimit-per", str(TIMEOUT))
            slv.setLogic("ALL")
            sm = cvc5.SymbolManager(slv.getTermManager()) if hasattr(slv, "getTermManager") else cvc5.SymbolManager(slv)
            p = cvc5.InputParser(slv, sm)
            txt = "\n".join(l for l in self.s.to_smt2().splitlines() if not l.startswith("(set-info") and not l.startswith("(check-sat"))
            p.setStringInput(cvc5.InputLanguage.SMT_LIB_2_6, txt, "q")
            while True:
                cmd = p.nextCommand()
                if cmd.isNull():
                    break
                cmd.invoke(slv, sm)
            r = slv.checkSat()
            Q.stats["cvc5"] += 1
            if r.isSat():
                self.vals = {}
                for t in sm.getDeclaredTerms():
                    if str(t) in self.vars:
                        self.vals[str(t)] = t and _unescape(slv.getValue(t).getStringValue())
                for n in self.vars:
                    self.vals.setdefault(n, "")
                return "sat"
            return "unsat" if r.isUnsat() else "unknown"
        except Exception:  # noqa  (parser / option differences between cvc5 versions): fall back to z3
            return "unknown"

    def value(self, term):
        """value of a z3 string term under the model found"""
        subs = [(v, z3.StringVal(self.vals[n])) for n, v in self.vars.items()]
        return z3.simplify(z3.substitute(term, *subs)).as_string()


def _unescape(x):
    return x


def _solver():
    return Q()


def _chars_re(chars):
    return z3.Union(*[z3.Re(ch) for ch in sorted(chars)]) if len(chars) > 1 else z3.Re(list(chars)[0])


# ---------------------------------------------------------------------------------------------------------------
# AST -> z3 for the fragments
# ---------------------------------------------------------------------------------------------------------------
def _fn_ast(fn):
    src = textwrap.dedent(inspect.getsource(fn))
    return ast.parse(src).body[0]


REF_PARTS = []


def translate_ref(H, S, D):
    """BaseOrder.customer_order_ref:  "%s%s%s" % (self.trade.strategy.name_hash, self.sep, self.id)  ->  Concat"""
    t = _translate_ref(H, S, D)
    del REF_PARTS[:]
    def flat(x):
        if z3.is_app(x) and x.decl().kind() == z3.Z3_OP_SEQ_CONCAT:
            return [y for ch in x.children() for y in flat(ch)]
        return [x]
    REF_PARTS.extend(flat(t))
    return t


def _translate_ref(H, S, D):
    fn = _fn_ast(BaseOrder.customer_order_ref.fget)
    body = [n for n in fn.body if not (isinstance(n, ast.Expr) and isinstance(n.value, ast.Constant))]
    if len(body) != 1 or not isinstance(body[0], ast.Return):
        raise CannotEncode("customer_order_ref: body is not a single return")
    e = body[0].value
    names = {"name_hash": H, "sep": S, "id": D}

    def leaf(n):
        if isinstance(n, ast.Attribute) and n.attr in names:
            return names[n.attr]
        if isinstance(n, ast.Constant) and isinstance(n.value, str):
            return z3.StringVal(n.value)
        raise CannotEncode("customer_order_ref: unsupported operand %s" % ast.dump(n)[:80])

    if isinstance(e, ast.BinOp) and isinstance(e.op, ast.Mod) and isinstance(e.left, ast.Constant) and isinstance(e.left.value, str):
        fmt = e.left.value
        args = list(e.right.elts) if isinstance(e.right, ast.Tuple) else [e.right]
        parts = fmt.split("%s")
        if "%" in "".join(parts) or len(parts) != len(args) + 1:
            raise CannotEncode("customer_order_ref: format string %r is outside the %%s subset" % fmt)
        terms = []
        for i, p in enumerate(parts):
            if p:
                terms.append(z3.StringVal(p))
            if i < len(args):
                terms.append(leaf(args[i]))
        return z3.Concat(*terms) if len(terms) > 1 else terms[0]
    if isinstance(e, ast.JoinedStr):
        terms = []
        for v in e.values:
            if isinstance(v, ast.Constant):
                terms.append(z3.StringVal(v.value))
            elif isinstance(v, ast.FormattedValue) and v.conversion == -1 and v.format_spec is None:
                terms.append(leaf(v.value))
            else:
                raise CannotEncode("customer_order_ref: unsupported f-string part")
        return z3.Concat(*terms) if len(terms) > 1 else terms[0]
    if isinstance(e, ast.BinOp) and isinstance(e.op, ast.Add):
        def flat(n):
            return flat(n.left) + flat(n.right) if isinstance(n, ast.BinOp) and isinstance(n.op, ast.Add) else [leaf(n)]
        return z3.Concat(*flat(e))
    raise CannotEncode("customer_order_ref: unsupported expression %s" % ast.dump(e)[:100])


def _slices_of(fn, module, ref):
    """every `<x>.customer_order_ref[lo:hi]` in fn -> {assigned name: z3 term}"""
    out = {}
    tree = _fn_ast(fn)
    env = dict(vars(module))
    for node in ast.walk(tree):
        if isinstance(node, ast.Assign) and len(node.targets) == 1 and isinstance(node.targets[0], ast.Name):
            v = node.value
            if isinstance(v, ast.Subscript) and isinstance(v.value, ast.Attribute) and v.value.attr == "customer_order_ref":
                sl = v.slice
                if not isinstance(sl, ast.Slice) or sl.step is not None:
                    raise CannotEncode("%s: customer_order_ref subscript is not a plain slice" % fn.__name__)
                lo = eval(compile(ast.Expression(sl.lower), "<ast>", "eval"), env) if sl.lower is not None else 0
                hi = eval(compile(ast.Expression(sl.upper), "<ast>", "eval"), env) if sl.upper is not None else None
                if not isinstance(lo, int) or lo < 0 or (hi is not None and (not isinstance(hi, int) or hi < 0)):
                    raise CannotEncode("%s: slice bounds outside the supported subset" % fn.__name__)
                # z3's str.substr clamps exactly like a Python slice with non-negative bounds
                n = z3.Length(ref)
                lo_t = z3.IntVal(lo)
                ln = (n - lo) if hi is None else z3.IntVal(max(hi - lo, 0))
                out[node.targets[0].id] = (z3.SubString(ref, lo_t, ln), lo, hi)
    return out


def translate_validator(C):
    """BetfairOrder.is_valid_customer_order_ref_character(c) -> z3 Bool over the string C"""
    fn = _fn_ast(BetfairOrder.is_valid_customer_order_ref_character)
    arg = fn.args.args[-1].arg
    env = dict(vars(order_mod))

    def expr(n):
        if isinstance(n, ast.Constant) and isinstance(n.value, bool):
            return z3.BoolVal(n.value)
        if isinstance(n, ast.BoolOp):
            xs = [expr(v) for v in n.values]
            return z3.And(xs) if isinstance(n.op, ast.And) else z3.Or(xs)
        if isinstance(n, ast.UnaryOp) and isinstance(n.op, ast.Not):
            return z3.Not(expr(n.operand))
        if isinstance(n, ast.Compare) and len(n.ops) == 1:
            l, op, r = n.left, n.ops[0], n.comparators[0]
            if isinstance(l, ast.Call) and isinstance(l.func, ast.Name) and l.func.id == "len" and isinstance(l.args[0], ast.Name) \
                    and l.args[0].id == arg and isinstance(r, ast.Constant) and isinstance(r.value, int):
                a, b = z3.Length(C), z3.IntVal(r.value)
                return {ast.Eq: a == b, ast.NotEq: a != b, ast.Lt: a < b, ast.LtE: a <= b, ast.Gt: a > b, ast.GtE: a >= b}[type(op)]
            if isinstance(l, ast.Name) and l.id == arg and isinstance(op, (ast.In, ast.NotIn)) and isinstance(r, ast.Name):
                coll = env.get(r.id)
                if not isinstance(coll, (set, frozenset, list, tuple, str)) or not all(isinstance(x, str) for x in coll):
                    raise CannotEncode("validator: %s is not a collection of strings" % r.id)
                t = z3.Or([C == z3.StringVal(x) for x in sorted(coll)]) if not isinstance(coll, str) else z3.Contains(z3.StringVal(coll), C)
                return t if isinstance(op, ast.In) else z3.Not(t)
        raise CannotEncode("validator: unsupported expression %s" % ast.dump(n)[:100])

    def block(stmts):
        stmts = [s for s in stmts if not (isinstance(s, ast.Expr) and isinstance(s.value, ast.Constant))]
        if not stmts:
            raise CannotEncode("validator: path without return")
        s0 = stmts[0]
        if isinstance(s0, ast.Return):
            return expr(s0.value)
        if isinstance(s0, ast.If):
            cond = expr(s0.test)
            rest = stmts[1:]
            return z3.If(cond, block(s0.body + rest), block((s0.orelse or []) + rest))
        raise CannotEncode("validator: unsupported statement %s" % type(s0).__name__)

    return block(fn.body)


# ---------------------------------------------------------------------------------------------------------------
def _real_order(name_hash, sep, id_):
    st = BaseStrategy(market_filter={}, name="x")
    st.name_hash = name_hash
    o = Trade(cm.MID, 1, 0, st).create_order("BACK", cm.LimitOrder(2.0, 2.0))
    o._sep = sep
    o.id = id_
    return o


def _domain(s, H, S, D, Cvalid=None, chars=True):
    """hash: 13 hex characters, id: 1..19 digits.  The character classes are only asserted where an obligation is about
    characters (regex membership makes z3's sequence solver erratic); the structural obligations hold for arbitrary
    characters, which is the stronger statement"""
    s.declare(H, S, D)
    s.add(z3.Length(H) == utils.STRATEGY_NAME_HASH_LENGTH, z3.Length(D) >= 1, z3.Length(D) <= 19)
    if chars:
        # per-position character classes (no regular expressions: quantifier-free over at / length only)
        for k in range(utils.STRATEGY_NAME_HASH_LENGTH):
            s.add(z3.Or([z3.SubString(H, k, 1) == z3.StringVal(ch) for ch in HEX]))
        for k in range(19):
            s.add(z3.Or(z3.Length(D) <= k, z3.Or([z3.SubString(D, k, 1) == z3.StringVal(ch) for ch in string.digits])))
    if Cvalid is not None:
        s.add(Cvalid)


def _check(s, name):
    return s.check(name)


def _str(m, t):
    return m.value(t)


def h19(c):
    """the reference built by the real (translated) code is valid, bounded, round-trips and is injective"""
    queries = 0
    H, S, D = z3.String("H"), z3.String("S"), z3.String("D")
    ref = translate_ref(H, S, D)
    Cv = z3.String("C")
    valid = translate_validator(Cv)
    valid_S = z3.substitute(valid, (Cv, S))
    # --- translator validation: translated fragments vs the real code on solver-generated strings
    s = _solver(); _domain(s, H, S, D, valid_S, chars=False)
    n_val = 0
    for k in range(6):
        if _check(s, "validation") != "sat":
            break
        m = s
        h, sp, d = _str(m, H), _str(m, S), _str(m, D)
        real = _real_order(h, sp, d).customer_order_ref
        if real != _str(m, ref):
            raise HarnessError("translator validation failed: %r vs %r" % (real, _str(m, ref)))
        n_val += 1
        s.add(z3.Or(H != z3.StringVal(h), S != z3.StringVal(sp), D != z3.StringVal(d)), z3.Length(D) != len(d))
    c.observe("translator_validated_on", n_val)
    # --- Q1 characters, by composition over the translated concatenation: the characters of a concatenation are those of its
    # parts; hash characters are hex digits, id characters are decimal digits, literal parts are checked directly, and the
    # separator is whatever the (translated) validator accepts - one solver query
    ok_chars = True
    why = None
    for part in REF_PARTS:
        if part.eq(H):
            ok_chars = ok_chars and set(HEX) <= DOC_VALID
        elif part.eq(D):
            ok_chars = ok_chars and set(string.digits) <= DOC_VALID
        elif part.eq(S):
            s = _solver(); s.declare(S)
            s.add(valid_S, z3.Or(z3.Length(S) != 1, z3.And([S != z3.StringVal(ch) for ch in sorted(DOC_VALID)]))); queries += 1
            if _check(s, "Q1-separator") == "sat":
                bad = _str(s, S)
                if BetfairOrder.is_valid_customer_order_ref_character(bad) and not (len(bad) == 1 and bad in DOC_VALID):
                    ok_chars, why = False, "separator %r" % bad
        elif z3.is_string_value(part):
            if not all(ch in DOC_VALID for ch in part.as_string()):
                ok_chars, why = False, "literal %r" % part.as_string()
        else:
            raise CannotEncode("customer_order_ref: unexpected part %s" % part)
    c.ob("reference-uses-only-accepted-characters", ok_chars, why=why)
    # --- Q2 length
    s = _solver(); _domain(s, H, S, D, valid_S, chars=False)
    s.add(z3.Or(z3.Length(ref) != 14 + z3.Length(D), z3.And(z3.Length(D) <= 18, z3.Length(ref) > 32))); queries += 1
    if _check(s, "Q2") == "sat":
        m = s
        real = _real_order(_str(m, H), _str(m, S), _str(m, D)).customer_order_ref
        c.ob("reference-length", len(real) == 14 + len(_str(m, D)) and (len(_str(m, D)) > 18 or len(real) <= 32), ref=real)
    else:
        c.ob("reference-length", True)
    # --- Q3 round trip through the slices used by the order stream / cleared orders processing
    for fn, mod in ((process_mod.process_current_orders, process_mod), (process_mod.create_order_from_current, process_mod),
                    (blotter_mod.Blotter.process_cleared_orders, blotter_mod)):
        sl = _slices_of(fn, mod, ref)
        if "order_id" not in sl:
            raise CannotEncode("%s: no `order_id = ...customer_order_ref[...]` found" % fn.__name__)
        for var, want in (("order_id", D), ("strategy_name_hash", H)):
            if var not in sl:
                continue
            term, lo, hi = sl[var]
            s = _solver(); _domain(s, H, S, D, valid_S, chars=False)
            s.add(term != want); queries += 1
            nm = "round-trip.%s.%s" % (fn.__name__, var)
            if _check(s, nm) == "sat":
                m = s
                real = _real_order(_str(m, H), _str(m, S), _str(m, D)).customer_order_ref
                got = real[lo:hi]
                c.ob(nm, got == _str(m, want), ref=real, got=got)
            else:
                c.ob(nm, True)
    # --- Q4 injective
    H2, S2, D2 = z3.String("H2"), z3.String("S2"), z3.String("D2")
    ref2 = z3.substitute(ref, (H, H2), (S, S2), (D, D2))
    s = _solver(); _domain(s, H, S, D, valid_S, chars=False); _domain(s, H2, S2, D2, z3.substitute(valid, (Cv, S2)), chars=False)
    s.add(ref == ref2, z3.Or(H != H2, S != S2, D != D2)); queries += 1
    if _check(s, "Q4") == "sat":
        m = s
        a = _real_order(_str(m, H), _str(m, S), _str(m, D)).customer_order_ref
        b = _real_order(_str(m, H2), _str(m, S2), _str(m, D2)).customer_order_ref
        c.ob("reference-injective", a != b, a=a, b=b)
    else:
        c.ob("reference-injective", True)
    # --- Q6 id length: uuid1().time < 10**18 for every clock before the year 4700
    t = z3.Int("unix_100ns")
    s = _solver()
    s.add(t >= 0, t < (4700 - 1970) * 366 * 86400 * 10**7, t + 0x01B21DD213814000 >= 10**18); queries += 1
    c.ob("order-id-at-most-18-digits-before-year-4700", _check(s, "Q6") == "unsat")
    import uuid
    c.ob("order-id-is-uuid1-time", _real_order("a" * 13, "-", "1").__class__.__init__.__code__ is not None and len(str(uuid.uuid1().time)) <= 18)
    c.observe("queries", queries)
    c.external_queries(queries + n_val, nontrivial=queries, secs=Q.stats["secs"])
    c.note("string queries answered by cvc5: %d, by z3: %d" % (Q.stats["cvc5"], Q.stats["z3"]))
    c.cover("reference")


def h19v(c):
    """separator validation: accepted <=> exactly one character of the documented set (strings of length 0..2 over
    arbitrary code points); the setter (also at construction) applies it"""
    C = z3.String("C")
    method = "ast->smt"
    try:
        valid = translate_validator(C)
        doc = z3.And(z3.Length(C) == 1, z3.Or([C == z3.StringVal(x) for x in sorted(DOC_VALID)]))
        s = _solver(); s.declare(C)
        s.add(z3.Length(C) <= 2, valid != doc)
        if _check(s, "Q5") == "sat":
            x = _str(s, C)
            c.ob("separator-validator=documented-set", BetfairOrder.is_valid_customer_order_ref_character(x) == (len(x) == 1 and x in DOC_VALID), sep=repr(x))
        else:
            c.ob("separator-validator=documented-set", True)
        # translator validation on solver-generated strings
        for want in (True, False):
            s = _solver(); s.declare(C); s.add(z3.Length(C) <= 2, valid == want)
            for k in range(8):
                if _check(s, "val") != "sat":
                    break
                x = _str(s, C)
                if BetfairOrder.is_valid_customer_order_ref_character(x) != want:
                    raise HarnessError("validator translation disagrees with the real function on %r" % x)
                s.add(C != z3.StringVal(x))
    except CannotEncode as e:
        # finite domain: every 1-character string, plus the empty string and 2-character samples (exhaustive for length 1)
        method = "exhaustive enumeration of all %d code points (AST outside the encodable subset: %s)" % (sys.maxunicode + 1, e)
        bad = None
        f = BetfairOrder.is_valid_customer_order_ref_character
        for cp in range(sys.maxunicode + 1):
            ch = chr(cp)
            if f(ch) != (ch in DOC_VALID):
                bad = ch
                break
        if bad is None:
            for x in ("", "ab", "--", "a-", "éé"):
                if f(x):
                    bad = x
                    break
        c.ob("separator-validator=documented-set", bad is None, sep=repr(bad))
    c.note(method)
    c.external_queries(17 if method == "ast->smt" else 0, nontrivial=1 if method == "ast->smt" else 0)
    # the setter applies the validator, also at construction
    st = BaseStrategy(market_filter={}, name="x")
    for sep, ok in (("-", True), ("~", True), ("A", True), ("", False), ("--", False), (" ", False), ("/", False), ("é", False), ("٣", False)):
        try:
            o = Trade(cm.MID, 1, 0, st).create_order("BACK", cm.LimitOrder(2.0, 2.0), sep=sep)
            acc = o.sep == sep
        except ValueError:
            acc = False
        c.ob("constructor-separator[%r]" % sep, acc == ok)
        o = Trade(cm.MID, 1, 0, st).create_order("BACK", cm.LimitOrder(2.0, 2.0))
        try:
            o.sep = sep
            acc = o.sep == sep
        except ValueError:
            acc = o.sep == config.order_sep and False
        c.ob("setter-separator[%r]" % sep, acc == ok)
    # strategy name hash: 13 lowercase hex characters for any name
    for nm in ("", "a", "strategy", "ünicøde 中", "x" * 500):
        h = BaseStrategy(market_filter={}, name=nm).name_hash
        c.ob("name-hash[%d chars]" % len(nm), len(h) == 13 and all(ch in HEX for ch in h))
    c.cover("validator")


def h19c(c, n_events=3):
    """references replayed through the order-stream processing of a second framework instance: every update is attributed
    to the strategy whose hash it carries, for every order of adding strategies and receiving updates"""
    from flumine.order.order import OrderStatus
    with cm.config_set(simulated=False):
        fl, client, (sa,) = cm.new_live(n_strategies=1)
        names = {"a": sa}
        refs = {}
        # references produced by a first instance (same strategy names -> same hashes)
        for nm in ("strat0", "late", "unknown"):
            st = BaseStrategy(market_filter={}, name=nm)
            o = Trade(cm.MID, 1, 0, st).create_order("BACK", cm.LimitOrder(2.0, 2.0))
            refs[nm] = (o.customer_order_ref, o.id, st.name_hash)
        late = None
        adopted = {}
        bet = 900
        for k in range(n_events):
            act = c.choose("action%d" % k, ["update-strat0", "update-late", "update-unknown", "add-late-strategy"])
            if act == "add-late-strategy":
                if late is None:
                    late = cm.add_live_strategy(fl, "late")
                continue
            nm = act.split("-", 1)[1]
            ref, oid, h = refs[nm]
            bet_id = {"strat0": "901", "late": "902", "unknown": "903"}[nm]
            before = sum(len(m.blotter) for m in fl.markets)
            with c.guard("process_current_orders"):
                fl._process_current_orders(cm.current_orders_event(client, [cm.current_order(ref, bet_id)]))
            after = sum(len(m.blotter) for m in fl.markets)
            known = nm == "strat0" or (nm == "late" and late is not None)
            if known:
                strat = sa if nm == "strat0" else late
                market = fl.markets.markets.get(cm.MID)
                o = market.blotter._orders.get(oid) if market else None
                c.ob("event%d.adopted-into-right-strategy" % k, o is not None and o.trade.strategy is strat and o.bet_id == bet_id)
                c.ob("event%d.adopted-once" % k, after - before == (0 if nm in adopted else 1))
                if o is not None:
                    c.ob("event%d.in-strategy-view" % k, [x for x in market.blotter.strategy_orders(strat) if x.id == oid] == [o])
                    c.ob("event%d.reference-round-trip" % k, o.customer_order_ref == ref)
                adopted[nm] = True
                c.cover("adopted")
            else:
                c.ob("event%d.unknown-strategy-ignored" % k, after == before)
                c.cover("ignored")


def h19d(c):
    """round trip through the REAL adoption path (process_current_orders -> create_order_from_current) of a second instance, for
    every accepted separator class - including separators that are hex digits occurring inside the strategy hash - the update is
    attributed to the strategy and order that produced the reference (complements the AST translation: works whatever shape the
    parsing code takes)"""
    with cm.config_set(simulated=False):
        hsh = c.choose("strategy_hash", ["abcdef0123456", "0000000000000", "1b2da2ce8e99b"])
        sep = c.choose("separator", ["-", "~", ":", "a", "0", "b", "9", "e", "Z", "f"])
        oid = c.choose("order_id", ["1", "139473958720000000", "9" * 18])
        fl, client, (strategy,) = cm.new_live()
        strategy.name_hash = hsh
        first = BaseStrategy(market_filter={}, name="x")
        first.name_hash = hsh
        o = Trade(cm.MID, 1, 0, first).create_order("BACK", cm.LimitOrder(2.0, 2.0), sep=sep)
        o.id = oid
        ref = o.customer_order_ref
        c.ob("reference-length<=32", len(ref) <= 32)
        with c.guard("adoption"):
            fl._process_current_orders(cm.current_orders_event(client, [cm.current_order(ref, "555")]))
        m = fl.markets.markets.get(cm.MID)
        got = [x for x in (m.blotter if m else [])]
        c.ob("adopted-into-producing-strategy", len(got) == 1 and got[0].trade.strategy is strategy and got[0].id == oid and got[0].bet_id == "555",
             found=len(got), id=got[0].id if got else None)
        # a second delivery finds the same order again (no duplicate)
        with c.guard("adoption-2"):
            fl._process_current_orders(cm.current_orders_event(client, [cm.current_order(ref, "555")]))
        c.ob("second-delivery-no-duplicate", len(list(fl.markets.markets[cm.MID].blotter)) == 1 if m else False)
        c.cover("round-trip")


def h19u(c, n=40):
    """uniqueness within a run under each clock regime the property names: the real clock, flumine's simulated clock (time stands still
    between two market updates) and a coarse system clock (environment stub: time.time_ns / time.time / time.monotonic_ns return the same
    instant for a symbolic number of consecutive calls); n orders in a tight loop and from 4 threads, Betfair and Betdaq orders mixed"""
    import time as _time
    import threading
    from flumine.order.order import BetdaqOrder
    from flumine.order.ordertype import BetdaqLimitOrder
    from flumine.simulation.utils import SimulatedDateTime
    regime = c.choose("clock", ["real", "simulated-standing-still", "coarse-system-clock"])
    stride = c.choose("coarse_clock_ticks_every_n_calls", [1000000, 7]) if regime == "coarse-system-clock" else None
    threaded = c.choose("threads", [1, 4])
    c.tag("clock", regime)
    strategy = BaseStrategy(market_filter={}, name="s")
    made = []

    def make(k):
        out = []
        for i in range(k):
            tr = Trade(cm.MID, 1, 0, strategy)
            if i % 2:
                out.append(tr.create_betdaq_order("BACK", BetdaqLimitOrder(2.0, 5.0, 1, 0, 0), BetdaqOrder))
            else:
                out.append(tr.create_order("BACK", cm.LimitOrder(2.0, 2.0)))
        made.extend(out)

    saved = {k: getattr(_time, k) for k in ("time_ns", "time", "monotonic_ns", "perf_counter_ns")}
    calls = {"n": 0}
    base = saved["time_ns"]()

    def coarse_ns():
        calls["n"] += 1
        return base + (calls["n"] // stride) * 15_600_000  # a 64 Hz timer

    sim = SimulatedDateTime()
    try:
        if regime == "coarse-system-clock":
            _time.time_ns = coarse_ns
            _time.time = lambda: coarse_ns() / 1e9
            _time.monotonic_ns = coarse_ns
        with c.guard("create"):
            if regime == "simulated-standing-still":
                with sim:
                    sim(cm.core._EPOCH + cm._dt.timedelta(milliseconds=cm.T0_MS))
                    make(n)
            elif threaded == 1:
                make(n)
            else:
                ts = [threading.Thread(target=make, args=(n // 4,)) for _ in range(4)]
                [t.start() for t in ts]
                [t.join() for t in ts]
    finally:
        for k, v in saved.items():
            setattr(_time, k, v)
    ids = [o.id for o in made]
    refs = [str(o.customer_order_ref) for o in made if hasattr(o, "customer_order_ref")]
    c.ob("order-ids-unique-within-the-run", len(set(ids)) == len(ids), created=len(ids), distinct=len(set(ids)))
    c.ob("customer-references-unique-within-the-run", len(set(refs)) == len(refs), created=len(refs), distinct=len(set(refs)))
    c.ob("all-created", len(made) >= n // 4 * 4)
    c.cover("unique")


def h19b(c):
    """Betdaq polling batch through the real process_betdaq_current_orders: entries whose reference is in no blotter (a bet placed on the
    Betdaq site, another instance on the same account) are skipped wherever they stand in the batch; every other entry reaches exactly
    the order that carries its reference"""
    from flumine.baseflumine import BaseFlumine
    from flumine.clients.betdaqclient import BetdaqClient
    from flumine.clients.clients import ExchangeType
    from flumine.events import events
    from flumine.order.order import BetdaqOrder, OrderStatus
    from flumine.order.ordertype import BetdaqLimitOrder
    with cm.config_set(simulated=False):
        client = BetdaqClient(betting_client=cm.NS(username="bdq", betting=cm.NS()), order_stream=False)
        fl = BaseFlumine(client)
        strategy = cm.add_live_strategy(fl, "s")
        market = fl._add_market(cm.MID, cm.book([cm.runner(1)], version=7))
        mine = []
        for i in range(2):
            tr = Trade(cm.MID, 1, 0, strategy)
            o = tr.create_betdaq_order("BACK", BetdaqLimitOrder(2.0, 10.0, 1, 0, 0), BetdaqOrder)
            o.update_client(client)
            o.bet_id = 700 + i
            market.blotter[o.id] = o
            o.responses.placed({"order_id": 700 + i, "status": "Unmatched", "sequence_number": 1, "remaining_size": 10.0, "matched_size": 0.0})
            o.status = OrderStatus.EXECUTABLE
            o.status_log.append(OrderStatus.EXECUTABLE)
            strategy.get_runner_context(*o.lookup).place(tr.id)
            mine.append(o)
        layout = c.choose("batch", ["known,foreign", "foreign,known", "known,foreign,known", "foreign", "known,known,foreign", "foreign,foreign,known"])
        foreign_ref = c.choose("foreign_reference", [0, 123456789012345678])
        c.tag("batch", layout)
        batch, k_i = [], 0
        for part in layout.split(","):
            if part == "known":
                o = mine[k_i]; k_i += 1
                batch.append({"order_id": o.bet_id, "customer_reference": int(o.id), "status": "Unmatched", "sequence_number": 1, "price": 2.0,
                              "matched_size": 0.0, "remaining_size": 10.0, "matched_price": 0.0})
            else:
                batch.append({"order_id": 999, "customer_reference": foreign_ref, "status": "Matched", "sequence_number": 5, "price": 7.0,
                              "matched_size": 33.0, "remaining_size": 0.0, "matched_price": 7.0})
        with c.guard("poll"):
            fl._process_current_orders(events.CurrentOrdersEvent(batch, exchange=ExchangeType.BETDAQ))
        for o in mine:
            c.ob("own-order-untouched-by-foreign-entry", o.status == OrderStatus.EXECUTABLE and o.current_order.get("order_id") == o.bet_id
                 and o.size_matched == 0.0 and o.order_type.price == 2.0, status=o.status.name, seen_order_id=o.current_order.get("order_id"))
            c.ob("own-order-still-live", o in market.blotter._live_orders)
        c.ob("no-order-adopted-for-foreign-entry", sum(len(m.blotter) for m in fl.markets) == 2)
        c.cover("batch")


def h19n(c):
    """strategy name -> reference prefix: for every kind of name (empty, unicode, very long, names whose sha1 starts with zeros) the hash has
    exactly the 13 lower-case hex characters of the digest, so the fixed-position split of a reference recovers it; a reference built from it
    is adopted by a second instance, and the cleared order that carries it reaches its order whatever permitted separator the order uses"""
    import hashlib
    from flumine.order.order import OrderStatus
    name = c.choose("strategy_name", ["", "s", "back_favourite_2", "lay_the_draw_686", "strat\u00e9gie-\u6771\u4eac", "x" * 5000, "a", "0"])
    sep = c.choose("separator", ["-", "~", ":", "a", "0", "Z", "."])
    st1 = cm.RecordingStrategy(market_filter={}, name=name)  # (an empty name falls back to the class name: same class in both instances)
    want = hashlib.sha1(st1.name.encode()).hexdigest()[:13]
    c.ob("name-hash=first-13-hex-of-sha1", st1.name_hash == want, got=st1.name_hash, want=want)
    c.ob("name-hash-length=13", len(st1.name_hash) == 13, got=len(st1.name_hash))
    if hashlib.sha1(st1.name.encode()).hexdigest()[0] == "0":
        c.cover("digest-with-leading-zero")
    with cm.config_set(simulated=False):
        fl, client, _ = cm.new_live(n_strategies=0)
        st2 = cm.add_live_strategy(fl, name)
        o = Trade(cm.MID, 1, 0, st1).create_order("BACK", cm.LimitOrder(2.0, 2.0), sep=sep)
        ref = o.customer_order_ref
        c.ob("reference-length<=32", len(ref) <= 32)
        with c.guard("adoption"):
            fl._process_current_orders(cm.current_orders_event(client, [cm.current_order(ref, "555")]))
        m = fl.markets.markets.get(cm.MID)
        got = [x for x in (m.blotter if m else [])]
        c.ob("adopted-into-producing-strategy", len(got) == 1 and got[0].trade.strategy is st2 and got[0].id == o.id and got[0].bet_id == "555", found=len(got))
        if got:
            # the cleared order handed back by the exchange after settlement carries the same reference
            cleared = cm.NS(orders=[cm.NS(customer_order_ref=ref, bet_id="555", profit=1.0)])
            with c.guard("cleared"):
                m.blotter.process_cleared_orders(cleared)
            c.ob("cleared-order-reaches-its-order", got[0].cleared_order is cleared.orders[0], separator=sep)
    c.cover("names")


def h19e(c, K=3):
    """live mode schedules (C11 world): a replacement bet keeps the customer reference of the bet it replaces - two bets, one reference - and
    its stream update may arrive before the replace response: what the stream says about a bet is only ever stored on the order with that bet id"""
    from .c11 import h11a
    from .c06 import _Only

    class _Recover(_Only):
        def ob(self, name, cond, **tags):
            if "size-matched" in name or "size-remaining" in name:
                # what the exchange publishes about a bet reaches the order that carries its reference (checked where the stream does publish
                # after the last response; the silent-stream races are C11's known findings)
                if not self._c.tags.get("stream_silent_at_the_end"):
                    self._c.ob(name, cond, **tags)
                return
            _Only.ob(self, name, cond, **tags)

    h11a(_Recover(c, ("attributed-to-own-bet", "exactly-one-local-order", "no-exception")), K=K)


def h19s(c):
    """invalid separators are rejected on every path that sets one: the Trade.create_order / create_betdaq_order keyword, the order constructor
    and the `sep` setter agree with each other for each candidate (length 0, 1, 2; valid and invalid characters)"""
    from flumine.order.order import BetdaqOrder
    from flumine.order.ordertype import BetdaqLimitOrder
    sep = c.choose("separator", ["", "-", "~", "a", "Z", "0", ":", " ", "_", "é", "--", "ab", "\\", "\n", "."])
    kind = c.choose("order_type", ["LIMIT", "LIMIT_ON_CLOSE", "MARKET_ON_CLOSE", "BETDAQ"])
    strategy = BaseStrategy(market_filter={}, name="s")
    if kind != "BETDAQ" and c.choose("a_betdaq_order_was_given_this_separator_before", [False, True]):
        # (Betdaq orders accept any separator; what they accepted must not leak into the validation of a Betfair order)
        try:
            Trade(cm.MID, 1, 0, strategy).create_betdaq_order("BACK", BetdaqLimitOrder(2.0, 5.0, 1, 0, 0), BetdaqOrder, sep=sep)
        except ValueError:
            pass
        c.cover("separator-used-by-betdaq-first")

    def ot():
        return {"LIMIT": lambda: cm.LimitOrder(2.0, 2.0), "LIMIT_ON_CLOSE": lambda: cm.LimitOnCloseOrder(10.0, 2.0), "MARKET_ON_CLOSE": lambda: cm.MarketOnCloseOrder(10.0),
                "BETDAQ": lambda: BetdaqLimitOrder(2.0, 5.0, 1, 0, 0)}[kind]()

    def attempt(f):
        try:
            f()
            return "accepted"
        except ValueError:
            return "rejected"

    def via_trade():
        tr = Trade(cm.MID, 1, 0, strategy)
        return tr.create_betdaq_order("BACK", ot(), BetdaqOrder, sep=sep) if kind == "BETDAQ" else tr.create_order("BACK", ot(), sep=sep)

    def via_constructor():
        tr = Trade(cm.MID, 1, 0, strategy)
        cls = BetdaqOrder if kind == "BETDAQ" else BetfairOrder
        return cls(trade=tr, side="BACK", order_type=ot(), sep=sep)

    def via_setter():
        tr = Trade(cm.MID, 1, 0, strategy)
        o = tr.create_betdaq_order("BACK", ot(), BetdaqOrder) if kind == "BETDAQ" else tr.create_order("BACK", ot())
        o.sep = sep

    got = {"trade-keyword": attempt(via_trade), "constructor": attempt(via_constructor), "setter": attempt(via_setter)}
    c.ob("all-paths-agree-on-the-separator", len(set(got.values())) == 1, **got)
    if len(sep) != 1 and kind != "BETDAQ":  # (Betdaq orders carry a numeric reference, the separator is not part of it and not validated)
        c.ob("separator-of-length-other-than-1-rejected", set(got.values()) == {"rejected"}, **got)
        c.cover("invalid")
    if sep in ("-", "~", ":", "a", "Z", "0") or kind == "BETDAQ":
        c.ob("valid-separator-accepted", set(got.values()) == {"accepted"}, **got)
        c.cover("valid")


HARNESSES = [
    Harness("H19e", h19e, quick=dict(K=3), thorough=dict(K=4), pattern="P3/P5 schedule as a variable", requires=["run", "snapshot", "replaced-bet"], selfcheck=False,
            max_paths=(400000, 5000000), wall_s=(300, 3000)),
    Harness("H19n", h19n, pattern="exhaustive choice product through the real hash, adoption and cleared-order paths", requires=["names", "digest-with-leading-zero"], selfcheck=False),
    Harness("H19s", h19s, pattern="exhaustive choice product (three creation paths against each other)", requires=["valid", "invalid", "separator-used-by-betdaq-first"], selfcheck=False),
    Harness("H19u", h19u, quick=dict(n=40), thorough=dict(n=400), pattern="environment stub (clock) + exhaustive regime product", requires=["unique"], selfcheck=False),
    Harness("H19b", h19b, pattern="exhaustive choice product through the real Betdaq polling path", requires=["batch"], selfcheck=False),
    Harness("H19d", h19d, pattern="exhaustive choice product through the real adoption path", requires=["round-trip"], selfcheck=False),
    Harness("H19c", h19c, quick=dict(n_events=3), thorough=dict(n_events=5), pattern="P3 bounded history (schedule symbolic, strings concrete)",
            requires=["adopted", "ignored"], selfcheck=False),
    Harness("H19", h19, pattern="AST->SMT (z3 sequences)", requires=["reference"], selfcheck=False,
            outside=["distinctness of uuid.uuid1().time across calls and threads (CPython / libuuid) - trusted", "sha1 (name hash) - trusted",
                     "strategies registered under the same name (flumine only warns)"]),
    Harness("H19v", h19v, pattern="AST->SMT (z3 sequences), exhaustive fallback over all code points", requires=["validator"], selfcheck=False),
]
META = {"assumptions": ["hash strings: any 13 hex characters; ids: any 1..19 decimal digits; separators: any string the (translated) validator accepts"]}
