"""C03 Order lifecycle: one operation in flight, legal transitions, finality"""
from symx.run import Harness
from flumine.exceptions import OrderUpdateError
from flumine.order.order import OrderStatus, BetdaqOrder
from flumine.order.ordertype import BetdaqLimitOrder
from flumine.order.orderpackage import OrderPackageType
from flumine.order.trade import Trade
from . import common as cm
from . import simstate as ss
from . import lifecycle as lc

S = OrderStatus
ALL_STATUS = [None, S.PENDING, S.EXECUTABLE, S.CANCELLING, S.UPDATING, S.REPLACING, S.EXECUTION_COMPLETE, S.VIOLATION]


def h03a(c):
    """guards of BetfairOrder.cancel/update/replace and BetdaqOrder.cancel/update from an arbitrary state: accepted <=>
    resting executable with a bet id, compatible order type and a valid argument; otherwise OrderUpdateError and nothing changes"""
    with cm.config_set(simulated=True):
        fl, (client,), (strategy,) = cm.new_sim()
        market = cm.add_market(fl, cm.book([cm.runner(1)]))
        exch = c.choose("exchange", ["betfair", "betdaq"])
        kind = c.choose("order_type", ["LIMIT", "LOC", "MOC"]) if exch == "betfair" else "LIMIT"
        op = c.choose("operation", ["cancel", "update", "replace"] if exch == "betfair" else ["cancel", "update"])
        c.tag("exchange", exch); c.tag("operation", op); c.tag("order_type", kind)
        tr = Trade(cm.MID, 1, 0, strategy)
        size = c.cents("size", 1, 1000000)
        if exch == "betdaq":
            o = tr.create_betdaq_order("BACK", BetdaqLimitOrder(2.0, size, 1, 0, 0), BetdaqOrder)
        elif kind == "LIMIT":
            o = cm.mk_limit(strategy, "BACK", 2.0, size, trade=tr)
        elif kind == "LOC":
            o = cm.mk_loc(strategy, "BACK", size, 2.0, trade=tr)
        else:
            o = cm.mk_moc(strategy, "BACK", size, trade=tr)
        o.update_client(client)
        has_bet = c.choose("has_bet_id", [True, False])
        o.bet_id = "123" if has_bet else None
        st = c.enum("status", ALL_STATUS)
        o.status = st
        rem = size
        if exch == "betfair" and kind == "LIMIT":
            m = c.cents("matched", 0, 1000000)
            c.assume(m <= size)
            if c.is_true(m > 0):
                o.simulated.matched = [[0, 2.0, m]]
                o.simulated.size_matched = m
            rem = size - m
        snap = (o.status, len(o.status_log), dict(o.update_data), getattr(o.order_type, "persistence_type", None), getattr(o.order_type, "price", None))
        raised = None
        arg_ok = True
        try:
            if op == "cancel":
                red = c.cents("size_reduction", 1, 2000000) if c.choose("partial", [True, False]) else None
                if exch == "betdaq":
                    arg_ok = red is None
                elif kind == "LIMIT":
                    arg_ok = True if red is None else c.is_true(rem - red >= 0)
                o.cancel(red)
                new = S.CANCELLING
            elif op == "update":
                if exch == "betfair":
                    newp = c.choose("new_persistence", ["LAPSE", "PERSIST"])
                    arg_ok = kind != "LIMIT" or newp != o.order_type.persistence_type
                    o.update(newp)
                else:
                    o.update(size_delta=1.0, new_price=3.0)
                new = S.UPDATING
            else:
                np_ = c.choose("new_price", [2.0, 3.0])
                arg_ok = kind == "MOC" or np_ != o.order_type.price
                o.replace(np_)
                new = S.REPLACING
        except OrderUpdateError as e:
            raised = e
        type_ok = (kind == "LIMIT") if op in ("cancel", "update") else (kind in ("LIMIT", "LOC"))
        should = c.And(st == S.EXECUTABLE, has_bet, type_ok, arg_ok)
        if raised is None:
            c.cover("accepted")
            c.ob("accepted=>allowed", should)
            c.ob("accepted=>in-flight-status", o.status == new)
            c.ob("accepted=>one-status-entry", len(o.status_log) == snap[1] + 1)
        else:
            c.cover("rejected")
            c.ob("rejected=>not-allowed", c.Not(should))
            now = (o.status, len(o.status_log), dict(o.update_data), getattr(o.order_type, "persistence_type", None), getattr(o.order_type, "price", None))
            c.ob("rejected=>no-side-effects", now[1:] == snap[1:] and now[0] is snap[0])


def h03b_sim(c, n=1):
    """simulation: a cancel/update/replace/place response applied by the real SimulatedExecution to an order that is either
    still in the requested transient state or has meanwhile completed (matched / lapsed / voided and swept)"""
    with cm.config_set(simulated=True):
        fl, (client,), (strategy,) = cm.new_sim()
        mw = fl._market_middleware[0]
        kind = c.choose("kind", [OrderPackageType.PLACE, OrderPackageType.CANCEL, OrderPackageType.UPDATE, OrderPackageType.REPLACE])
        bk = cm.book([cm.runner(1, atb=[{"price": 1.5, "size": 100.0}], atl=[{"price": 4.0, "size": 100.0}]), cm.runner(2)], version=7)
        market = cm.add_market(fl, bk)
        mw(market)
        c.tag("kind", kind.name)
        with lc.Recorder() as rec:
            if kind == OrderPackageType.PLACE:
                o = cm.mk_limit(strategy, c.choose("side", ["BACK", "LAY"]), 2.0, c.cents("size", 1, 1000000))
                market.place_order(o, force=True)
                pkg = fl.handler_queue.pop()
                size = o.order_type.size
            else:
                o, d = ss.resting_limit(c, "o", fl, market, strategy, 100, status=lc.TRANSIENT[kind], price=2.0, persistence="LAPSE", max_frags=1)
                size = d["size"]
                if kind == OrderPackageType.CANCEL:
                    o.update_data["size_reduction"] = c.cents("size_reduction", 1, 2000000) if c.choose("partial", [True, False]) else None
                elif kind == OrderPackageType.UPDATE:
                    o.order_type.persistence_type = "PERSIST"
                else:
                    o.update_data["new_price"] = c.choose("new_price", [3.0, 1.01, 1000.0])
                pkg = ss.package(fl, market, [o], kind)
            # a PENDING order is not at the exchange yet: only a runner removal can complete it before its placement response
            pre = c.choose("meanwhile", ["nothing", "voided"] if kind == OrderPackageType.PLACE else ["nothing", "matched", "lapsed", "voided"])
            c.tag("meanwhile", pre)
            sim = o.simulated
            if pre == "matched":
                sim.matched = sim.matched + [[cm.T0_MS, 2.0, sim.size_remaining]]
                sim.size_matched = cm.total([f[2] for f in sim.matched])
            elif pre == "lapsed":
                sim.size_lapsed = sim.size_remaining
            elif pre == "voided":
                bk2 = cm.book([cm.runner(1, status="REMOVED", adjustment_factor=10.0), cm.runner(2)], version=8, pt_ms=cm.T0_MS + 500)
                market(bk2)
                mw(market)
            with c.guard("sweep-1"):
                fl._process_simulated_orders(market)
            was_complete = {o: o.complete}
            m_at_complete = sim.size_matched
            if pre != "nothing":
                c.ob("meanwhile.completed-and-swept", o.complete and o not in market.blotter._live_orders)
                c.cover("completed-meanwhile")
            market.market_book.status = c.choose("market_status_at_response", ["OPEN", "SUSPENDED"])
            with c.guard("handler"):
                client.execution.handler(pkg)
            with c.guard("sweep-2"):
                fl._process_simulated_orders(market)
        orders = list(market.blotter)
        lc.transition_obligations(c, rec, [o], was_complete=None)
        if was_complete[o]:
            # finality for an order already reported complete before the response arrived
            for (old, new, who) in rec.of(o):
                pass
            seen = False
            for (old, new, who) in rec.of(o):
                if seen:
                    c.ob("complete-is-final", new not in lc.LIVE_STATUS, transition="%s->%s" % (getattr(old, "name", old), new.name), writer=who)
                if new == S.EXECUTION_COMPLETE:
                    seen = True
            c.ob("matched-unchanged-after-complete", sim.size_matched == m_at_complete)
        for x in orders:
            if x is not o:
                lc.transition_obligations(c, rec, [x], tag="replacement")
                c.cover("replacement")
        c.ob("ends-progressable", o.status in (S.EXECUTABLE, S.EXECUTION_COMPLETE))
        c.cover("handled")


def h03b_live(c, n=1):
    """live: one request through Transaction -> real BetfairExecution against the exchange double; per-instruction outcome,
    failing attempts and the order stream completing the order before the response are symbolic"""
    with cm.config_set(simulated=False):
        kind = c.choose("kind", lc.KINDS)
        w = lc.live_handler_step(c, kind, n=n, allow_misorder=False)
        was = {}
        lc.transition_obligations(c, w["rec"], w["orders"])
        for x in w["market"].blotter:
            if x not in w["orders"]:
                lc.transition_obligations(c, w["rec"], [x], tag="replacement")
                c.cover("replacement")
        for pr in w["state"].get("probe", []):
            # while a placement or any such request is in flight every further request is rejected without side effects
            c.ob("order%d.request-while-in-flight-rejected" % pr[0], pr[1] == "rejected")
            if pr[1] == "rejected":
                c.ob("order%d.rejected-request-no-side-effects" % pr[0], pr[2] == pr[3])
            c.cover("probe")
        if any(w["meanwhile"]):
            c.cover("stream-first")
        if w["fail_until"] >= 4:
            c.cover("retries-exhausted")
        c.cover("handled")


def h03b_betdaq(c):
    """Betdaq: one request through Transaction -> real BetdaqExecution against a double of the Betdaq API (report ok / error code /
    missing / API error), with polling updates (process_betdaq_current_orders) before and after the answer"""
    from betdaq import BetdaqError
    from flumine.baseflumine import BaseFlumine
    from flumine.clients.betdaqclient import BetdaqClient
    from flumine.clients.clients import ExchangeType
    from flumine.events import events
    with cm.config_set(simulated=False):
        api = cm.NS()
        client = BetdaqClient(betting_client=cm.NS(username="bdq", betting=api), order_stream=False)
        fl = BaseFlumine(client)
        fl.betdaq_execution._thread_pool = cm.InlinePool()
        fl.betdaq_execution._get_http_session = lambda: cm.NS(time_created=0, time_returned=0)
        strategy = cm.add_live_strategy(fl, "s")
        market = fl._add_market(cm.MID, cm.book([cm.runner(1)], version=7))
        kind = c.choose("kind", ["place", "cancel", "update"])
        outcome = c.choose("api_outcome", ["ok", "error-code", "report-missing", "BetdaqError", "Exception"])
        poll_before = c.choose("poll_before_answer", ["none", "Unmatched", "Unmatched-new-sequence", "Suspended", "Suspended-new-sequence", "Matched", "Cancelled"]) if kind != "place" else "none"
        poll_after = c.choose("poll_after_answer", ["none", "Unmatched", "Unmatched-new-sequence", "Suspended", "Suspended-new-sequence", "Matched", "Cancelled", "Settled"])
        # an update may change the stake only: the requested price is then the order's own price, which every poll shows
        new_price = c.choose("update_new_price", [2.5, None]) if kind == "update" else None
        c.tag("new_price", new_price)
        c.tag("kind", kind); c.tag("outcome", outcome); c.tag("poll_before", poll_before); c.tag("poll_after", poll_after)
        tr = Trade(cm.MID, 1, 0, strategy)
        o = tr.create_betdaq_order("BACK", BetdaqLimitOrder(2.0, 10.0, 1, 0, 0), BetdaqOrder)
        seq = [1]

        def poll(status, new_seq=False):
            if new_seq:
                seq[0] += 1
            co = {"order_id": o.bet_id or 777, "customer_reference": int(o.id), "status": status, "sequence_number": seq[0], "price": 2.0,
                  "matched_size": 10.0 if status in ("Matched", "Settled") else (4.0 if new_seq else 0.0),
                  "remaining_size": 0.0 if status not in ("Unmatched", "Suspended") else (6.0 if new_seq else 10.0), "matched_price": 2.0}
            was_complete = o.status == S.EXECUTION_COMPLETE
            fl._process_current_orders(events.CurrentOrdersEvent([co], exchange=ExchangeType.BETDAQ))
            if status in ("Unmatched", "Suspended") and not was_complete:
                # (C11 clause in the Betdaq world) the exchange reports the order live (resting, or held while the market is suspended)
                c.ob("poll-reporting-the-order-live-does-not-complete-it", o.status != S.EXECUTION_COMPLETE, polled=status, after=o.status.name)
                c.ob("poll-reporting-the-order-live-keeps-it-in-live-orders", o.id not in market.blotter or o in market.blotter.live_orders, polled=status)

        def answer(name):
            def f(**kw):
                if poll_before != "none":
                    st0 = o.status
                    poll(poll_before.split("-")[0], new_seq=poll_before.endswith("new-sequence"))
                    # one operation in flight: a poll may complete the order, it may resolve a Betdaq update (new sequence number),
                    # it must not hand a cancel that is still outstanding back as 'executable'
                    c.ob("poll-does-not-release-in-flight-cancel", not (st0 == S.CANCELLING and o.status == S.EXECUTABLE), before=st0.name, after=o.status.name)
                    c.ob("poll-keeps-or-completes-or-resolves-update", o.status == st0 or o.status == S.EXECUTION_COMPLETE or
                         (st0 == S.UPDATING and o.status == S.EXECUTABLE and poll_before.endswith("new-sequence")), before=st0.name, after=o.status.name)
                    c.cover("poll-in-flight")
                if outcome == "BetdaqError":
                    raise BetdaqError("scripted")
                if outcome == "Exception":
                    raise RuntimeError("scripted")
                if outcome == "report-missing":
                    return []
                rc = 0 if outcome == "ok" else 137
                if name == "place":
                    return [{"customer_reference": int(o.id), "order_id": 777 if rc == 0 else None, "return_code": rc, "status": "Unmatched"}]
                return [{"order_id": o.bet_id, "return_code": rc, "customer_reference": int(o.id)}]
            return f

        api.place_orders, api.cancel_orders, api.update_orders = answer("place"), answer("cancel"), answer("update")
        with lc.Recorder() as rec:
            if kind != "place":
                o.update_client(client)
                o.bet_id = 777
                market.blotter[o.id] = o
                o.responses.placed({"order_id": 777, "status": "Unmatched", "sequence_number": 1, "remaining_size": 10.0, "matched_size": 0.0})
                o.status = S.EXECUTABLE
                o.status_log.append(S.EXECUTABLE)
                strategy.get_runner_context(*o.lookup).place(tr.id)
            with c.guard("request+answer"):
                if kind == "place":
                    market.place_order(o, force=True)
                elif kind == "cancel":
                    market.cancel_order(o, force=True)
                else:
                    market.update_order(o, size_delta=-2.0, new_price=new_price, force=True)
            if poll_after != "none":
                with c.guard("poll"):
                    poll(poll_after.split("-")[0], new_seq=poll_after.endswith("new-sequence"))
        lc.transition_obligations(c, rec, [o])
        if o.id in market.blotter:
            lc.blotter_coherence(c, market, list(market.blotter), tag="betdaq")
        seen = False
        for (old, new, who) in rec.of(o):
            if seen:
                c.ob("complete-is-final", new not in lc.LIVE_STATUS, transition="%s->%s" % (getattr(old, "name", old), new.name), writer=who)
            if new == S.EXECUTION_COMPLETE:
                seen = True
        # Betdaq: a successful update legitimately stays 'updating' until a poll with a new sequence number
        if not (kind == "update" and outcome == "ok" and not poll_after.endswith("new-sequence") and poll_after not in ("Matched", "Cancelled", "Settled")):  # noqa
            if kind != "place" or outcome in ("ok", "error-code", "BetdaqError", "Exception"):
                c.ob("ends-progressable", o.status in (S.EXECUTABLE, S.EXECUTION_COMPLETE) or (o.status == S.UPDATING and kind == "update" and outcome == "ok") or
                     (kind == "place" and outcome == "report-missing" and o.status == S.PENDING), status=o.status.name)
        c.cover("handled")


def h03d(c, N=3):
    """batching transaction (C02 world): whatever the positions of explicit execute() calls, no request is handed to the execution layer twice -
    a second copy would be a second operation in flight for the order"""
    from .c02 import h02b
    from .c06 import _Only
    h02b(_Only(c, ("in-exactly-one-package", "no-extra-orders-sent", "nothing-left-queued", "no-exception")), N=N)


def h03e(c, K=3):
    """live mode (C11 world: late responses, exchange-side fills, current / stale snapshots, replaced bets whose stream update may precede the
    replace response) with every status write recorded: legal transitions, and the matched size an order had when it was reported complete
    is never taken back afterwards"""
    from .c11 import h11a
    from .c06 import _Only
    world = {}
    with lc.Recorder() as rec:
        # what the exchange had matched for the bet at the very write that reports the order complete
        rec.probe = lambda o: (world["ex"].bets[o.bet_id]["matched"], world["ex"].remaining(world["ex"].bets[o.bet_id])) if o.bet_id in world["ex"].bets else None
        h11a(_Only(c, ("no-exception", "reported-complete-by-the-stream")), K=K, on_world=lambda ex, fl, market: world.update(ex=ex), epilogue_fill=True)
    seen = []
    for (o, old, new, who) in rec.orders:
        if not any(o is x for x in seen):
            seen.append(o)
    lc.transition_obligations(c, rec, seen)
    # live mode: the local view may lag the exchange when an order is reported complete (a cancel refused with BET_TAKEN_OR_LAPSED before
    # the stream delivered the match), so the matched size may still catch up with its own bet - it is never taken back
    for o, m in rec.completed:
        c.ob("reported-complete=>matched-size-never-taken-back", o.size_matched >= m, at_completion=m, now=o.size_matched, bet_id=o.bet_id)
    for o, at in rec.probed:
        if at is None:
            continue
        b = world["ex"].bets[o.bet_id]
        # finality at the exchange: nothing is matched for the bet after flumine reported the order complete
        c.ob("reported-complete=>nothing-matched-afterwards", b["matched"] == at[0], at_completion=at[0], now=b["matched"], bet_id=o.bet_id,
             cancelled_equals_remainder=(b["cancelled"] > 0 and b["cancelled"] == at[1]))
    c.cover("recorded")


def h03f(c):
    """a request refused by a control while the order's own placement is still in flight (C02 world): the order stays pending - no transition at all"""
    from .c02 import h02a
    from .c06 import _Only
    h02a(_Only(c, ("refused.status-unchanged", "refused.status_log-unchanged", "no-exception")), mode="sim")


from .c04 import h04b as _h04b  # noqa: E402  (the loop-level history harness, audited here for transitions and finality)

OUT = ["K > 3 interleavings as concrete histories (covered only through the arbitrary in-flight pre-state of H03b)",
       "OrderStatus.EXPIRED is never assigned anywhere in flumine and is excluded from pre-state domains"]
HARNESSES = [
    Harness("H03a", h03a, pattern="P2 inductive step", requires=["accepted", "rejected"], outside=OUT),
    Harness("H03b-live", h03b_live, pattern="P5 fault schedule as a variable", requires=["handled", "stream-first", "retries-exhausted", "replacement"], outside=OUT),
    Harness("H03b-betdaq", h03b_betdaq, pattern="P5 fault schedule as a variable", requires=["handled", "poll-in-flight"], outside=OUT, selfcheck=False),
    Harness("H03f", h03f, pattern="P2 inductive step", requires=["refused", "second-request-while-in-flight"], outside=OUT, selfcheck=False),
    Harness("H03d", h03d, quick=dict(N=3), thorough=dict(N=4), pattern="P3 bounded history", requires=["batched", "explicit-execute"], outside=OUT, selfcheck=False),
    Harness("H03e", h03e, quick=dict(K=3), thorough=dict(K=4), pattern="P3/P5 schedule as a variable", requires=["run", "recorded", "replaced-bet"], outside=OUT,
            max_paths=(400000, 5000000), wall_s=(300, 3000), selfcheck=False),
    Harness("H03c", _h04b, quick=dict(K=1, focus="C03", variants=("default", "no-isolation")), thorough=dict(K=2, focus="C03", variants=("default",), actions=("none", "place-rest", "place-cross", "place-sp", "cancel-all", "replace"), book_events=("open", "traded", "sp-reconciled", "runner-removed")),
            pattern="P3 bounded history through the simulation loop (transitions recorded at the write)", requires=["audited", "placed", "amended"],
            wall_s=(300, 3000), max_paths=(400000, 6000000), selfcheck=False, outside=OUT),
    Harness("H03b-sim", h03b_sim, pattern="P5 + P2 (response vs arbitrary in-flight pre-state)", requires=["handled", "completed-meanwhile", "replacement"], outside=OUT),
]
META = {"assumptions": ["handler granularity: each execute_* body is atomic"]}
