"""C08 Settlement: simulated profit follows the exchange's rules"""
from symx.run import Harness
from flumine.order.order import OrderStatus
from flumine.order.trade import Trade
from . import common as cm
from . import position as pos

HALF = 0.005
AP_K = [1.01, 1.5, 2.0, 3.35, 11.0, 1000.0]
M_K = [0.01, 2.0, 7.25, 1000.0]
KINDS = ["LIMIT", "LINE", "LOC", "MOC"]


def _matched_order(c, tag, strategy, mode, market_id=cm.MID, selection_id=1, handicap=0, kinds=KINDS, side=None, unmatched_too=True):
    """a real order with symbolic (size_matched, average_price_matched): the state SimulatedOrder.profit reads"""
    kind = c.choose("%s_kind" % tag, kinds)
    side = side or c.choose("%s_side" % tag, ["BACK", "LAY"])
    tr = Trade(market_id, selection_id, handicap, strategy)
    matched = c.choose("%s_is_matched" % tag, [True, False]) if unmatched_too else True
    if mode == "S":
        m = c.cents("%s_m" % tag, 1, 1000000)
        ap = c.pick("%s_ap" % tag, AP_K) if kind != "LINE" else c.pick("%s_line" % tag, [0.5, 2.0, 10.0])
    else:
        m = c.pick("%s_m" % tag, M_K)
        ap = c.cents("%s_ap" % tag, 101, 100000) if kind != "LINE" else c.pick("%s_line" % tag, [0.5, 2.0, 10.0])
    if kind == "LIMIT":
        o = cm.mk_limit(strategy, side, ap, m, selection_id=selection_id, handicap=handicap, market_id=market_id, trade=tr)
    elif kind == "LINE":
        o = cm.mk_limit(strategy, side, ap, m, selection_id=selection_id, handicap=handicap, market_id=market_id, trade=tr, ladder_def="LINE_RANGE")
    elif kind == "LOC":
        o = cm.mk_loc(strategy, side, 10.0, 1.01, selection_id=selection_id, handicap=handicap, market_id=market_id, trade=tr)
    else:
        o = cm.mk_moc(strategy, side, 10.0, selection_id=selection_id, handicap=handicap, market_id=market_id, trade=tr)
    if matched:
        o.simulated.matched = [[cm.T0_MS, ap, m]]
        o.simulated.size_matched = m
        o.simulated.average_price_matched = ap
    else:
        m = 0
    return o, dict(kind=kind, side=side, m=m, ap=ap, matched=matched)


def _sgn(side, x):
    return x if side == "BACK" else -x


def oracle_profit(c, d, status, market_type, divisor, k, line_result):
    """settlement from the exchange's rules; returns (profit, tie) - tie=True where the rule is not defined"""
    m, ap, side = d["m"], d["ap"], d["side"]
    if not d["matched"]:
        return 0, False
    if market_type == "EACH_WAY":
        win = m * (ap - 1)
        place = m * (ap - 1) / divisor
        if status == "WINNER":
            return _sgn(side, win + place), False
        if status == "PLACED":
            return _sgn(side, place - m), False
        if status == "LOSER":
            return _sgn(side, -2 * m), False
        return 0, False
    if d["kind"] == "LINE":
        if line_result is None:
            return 0, False
        # struck at even money: BACK (sell) wins when the line is above the result, LAY (buy) when below
        if ap == line_result:
            return None, True
        back_wins = ap > line_result
        return (m if back_wins else -m) if side == "BACK" else (-m if back_wins else m), False
    if status == "WINNER":
        # dead heat with k winners for one place: 1/k of the stake wins at full odds, the rest loses
        p = (m / k) * (ap - 1) - m * (k - 1) / k
        return _sgn(side, p), False
    if status == "LOSER":
        return _sgn(side, -m), False
    return 0, False


def _close_book(c, statuses, market_type, divisor, k_extra_winners, number_of_winners=1):
    rs = []
    for (sel, hc), st in statuses.items():
        rs.append(cm.runner(sel, handicap=hc, status=st))
    for j in range(k_extra_winners):
        rs.append(cm.runner(50 + j, status="WINNER"))
    rs.append(cm.runner(99, status="LOSER"))
    md = cm.market_definition(market_type=market_type, each_way_divisor=divisor, status="CLOSED")
    return cm.book(rs, status="CLOSED", md=md, number_of_winners=number_of_winners)


def h08a(c, mode="S"):
    """Blotter.process_closed_market on a closing book, then order.profit vs the settlement oracle; antisymmetry"""
    with cm.config_set(simulated=True):
        fl, (client,), (strategy,) = cm.new_sim()
        market = cm.add_market(fl, cm.book([cm.runner(1), cm.runner(2)]))
        mtype = c.choose("market_type", ["WIN", "EACH_WAY", "MATCH_ODDS"])
        o, d = _matched_order(c, "o", strategy, mode, kinds=KINDS if mtype != "EACH_WAY" else ["LIMIT", "MOC"])
        o.update_client(client)
        market.blotter[o.id] = o
        # the mirror order: identical fills on the other side
        mirror = cm.mk_limit(strategy, "LAY" if d["side"] == "BACK" else "BACK", d["ap"], 1.0) if d["kind"] != "LINE" else \
            cm.mk_limit(strategy, "LAY" if d["side"] == "BACK" else "BACK", d["ap"], 1.0, ladder_def="LINE_RANGE")
        mirror.update_client(client)
        mirror.simulated.matched = [list(f) for f in o.simulated.matched]
        mirror.simulated.size_matched = o.simulated.size_matched
        mirror.simulated.average_price_matched = o.simulated.average_price_matched
        market.blotter[mirror.id] = mirror
        status = c.choose("runner_status", ["WINNER", "LOSER", "PLACED", "REMOVED"] if mtype == "EACH_WAY" else ["WINNER", "LOSER", "REMOVED"])
        divisor = c.pick("each_way_divisor", [2, 4, 5]) if mtype == "EACH_WAY" else None
        k = 1
        if mtype in ("WIN", "MATCH_ODDS") and status == "WINNER":
            # (a dead heat is decided by the number of winners of the closing book, whatever the market type is called)
            k = c.choose("dead_heat_winners", [1, 2, 3, 4] if mtype == "WIN" else [1, 2])
        line_result = None
        if d["kind"] == "LINE":
            lr = c.choose("line_result", ["none", "below", "equal", "above"])
            c.tag("line_result", lr)
            line_result = {"none": None, "below": d["ap"] - 1, "equal": d["ap"] + 0, "above": d["ap"] + 1}[lr]
            if line_result is not None:
                market.context["line_range_result"] = line_result
        c.tag("kind", d["kind"]); c.tag("market_type", mtype); c.tag("status", status)
        bk = _close_book(c, {(1, 0): status}, mtype, divisor, k - 1)
        with c.guard("process_closed_market"):
            market.blotter.process_closed_market(market, bk)
        with c.guard("profit"):
            p = o.profit
            pm = mirror.profit
        c.observe("profit", p)
        c.observe("mirror_profit", pm)
        orc, tie = oracle_profit(c, d, status, mtype, divisor, k, line_result)
        if not tie:
            c.ob("profit=exchange-rule", c.close(p, orc, HALF))
            c.cover("settled")
        else:
            c.cover("line-tie")
        c.ob("antisymmetry", p + pm == 0)
        if k > 1:
            c.cover("dead-heat")
        if mtype == "EACH_WAY":
            c.cover("each-way")
        if not d["matched"]:
            c.cover("unmatched")


def h08c(c):
    """result assignment: each order receives the status of its own (selection, handicap) runner"""
    with cm.config_set(simulated=True):
        fl, (client,), (strategy,) = cm.new_sim()
        market = cm.add_market(fl, cm.book([cm.runner(1), cm.runner(2)]))
        keys = [(1, 0), (1, 1.5), (2, 0)]
        sts = {k: c.choose("status_%d" % i, ["WINNER", "LOSER", "REMOVED"]) for i, k in enumerate(keys)}
        orders = {}
        for i, (sel, hc) in enumerate(keys):
            o, d = _matched_order(c, "o%d" % i, strategy, "S", selection_id=sel, handicap=hc, kinds=["LIMIT"], side="BACK", unmatched_too=False)
            o.update_client(client)
            market.blotter[o.id] = o
            orders[(sel, hc)] = (o, d)
        bk = _close_book(c, sts, "ASIAN_HANDICAP", None, 0, number_of_winners=3)
        with c.guard("process_closed_market"):
            market.blotter.process_closed_market(market, bk)
        for key, (o, d) in orders.items():
            c.ob("runner_status[%s,%s]" % key, o.runner_status == sts[key])
            orc, _ = oracle_profit(c, d, sts[key], "ASIAN_HANDICAP", None, 1, None)
            c.ob("profit[%s,%s]" % key, c.close(o.profit, orc, HALF))
            c.ob("market_type[%s,%s]" % key, o.market_type == "ASIAN_HANDICAP")
        c.cover("assigned")


def h08f(c):
    """settlement after the matched size of an order was re-stated by the framework itself: a MARKET_ON_CLOSE lay matched at the starting price,
    another runner removed in-play (the real middleware scales liability and matched size), then the market closes: profit follows the order's
    matched size and average price AS REPORTED at settlement, back and lay with the same reported fill stay opposite"""
    from flumine.events import events
    with cm.config_set(simulated=True):
        fl, (client,), (strategy,) = cm.new_sim()
        mw = fl._market_middleware[0]
        mtype = c.choose("market_type", ["WIN", "PLACE"])
        md = cm.market_definition(market_type=mtype)
        bk1 = cm.book([cm.runner(1, adjustment_factor=20.0), cm.runner(2, adjustment_factor=30.0), cm.runner(3, adjustment_factor=10.0)], version=7, md=md, inplay=True, bsp_reconciled=True)
        market = cm.add_market(fl, bk1)
        mw(market)
        liab = c.pick("liability", [2.0, 10.0, 37.5, 200.0])
        sp = c.pick("sp", [1.5, 3.0, 5.0, 11.0])
        o = cm.mk_moc(strategy, "LAY", liab, selection_id=2)
        cm.place_resting(fl, market, strategy, o, 101)
        size0 = c.cents("matched_size", 1, 1000000)
        o.simulated.matched = [[cm.T0_MS, sp, size0]]
        o.simulated.size_matched, o.simulated.average_price_matched = size0, sp
        o.simulated._bsp_reconciled = True
        f = c.cents("adjustment_factor", 250, 9900)
        bk2 = cm.book([cm.runner(1, status="REMOVED", adjustment_factor=f), cm.runner(2, adjustment_factor=30.0), cm.runner(3, adjustment_factor=10.0)], version=8, md=md,
                      pt_ms=cm.T0_MS + 1000, inplay=True, bsp_reconciled=True)
        with c.guard("removal"):
            market(bk2)
            mw(market)
            fl._process_simulated_orders(market)
        m, ap = o.simulated.size_matched, o.simulated.average_price_matched
        c.observe("size_matched_after_removal", m)
        status = c.choose("runner_status", ["WINNER", "LOSER"])
        cb = cm.book([cm.runner(1, status="REMOVED"), cm.runner(2, status=status), cm.runner(3, status="LOSER" if status == "WINNER" else "WINNER")], status="CLOSED",
                     md=cm.market_definition(market_type=mtype, status="CLOSED"))
        with c.guard("close"):
            market.blotter.process_closed_market(market, cb)
        exp = -(m * (ap - 1)) if status == "WINNER" else m
        c.ob("profit-follows-the-reported-matched-size", c.close(o.simulated.profit, exp, HALF), reported_size=str(m))
        c.cover("rescaled-then-settled")


def h08b(c, n_orders=2):
    """Market.cleared(client): profit = sum over that client's matched orders, bet count, commission only on a net win"""
    with cm.config_set(simulated=True):
        rates = [c.pick("rate0", [0, 0.02, 0.05, 0.1]), c.pick("rate1", [0, 0.02, 0.05, 0.1])]
        fl, clients, (strategy,) = cm.new_sim(n_clients=2, client_kwargs=[dict(username="c0", commission_base=rates[0]),
                                                                          dict(username="c1", commission_base=rates[1])])
        market = cm.add_market(fl, cm.book([cm.runner(1), cm.runner(2)]))
        own = {0: [], 1: []}
        status = c.choose("runner_status", ["WINNER", "LOSER"])
        for i in range(n_orders):
            ci = c.choose("o%d_client" % i, [0, 1])
            o, d = _matched_order(c, "o%d" % i, strategy, "S", kinds=["LIMIT"])
            o.update_client(clients[ci])
            market.blotter[o.id] = o
            own[ci].append((o, d))
        bk = _close_book(c, {(1, 0): status}, "WIN", None, 0)
        market.blotter.process_closed_market(market, bk)
        for ci in (0, 1):
            with c.guard("cleared"):
                cl = market.cleared(clients[ci])
            tot = cm.total([oracle_profit(c, d, status, "WIN", None, 1, None)[0] for o, d in own[ci]])
            nm = len([1 for o, d in own[ci] if d["matched"]])
            c.observe("client%d.profit" % ci, cl["profit"])
            c.ob("client%d.profit=sum" % ci, c.close(cl["profit"], tot, HALF * max(nm, 1) + HALF))
            c.ob("client%d.bet-count" % ci, cl["betCount"] == nm)
            exp_comm = c.smax(cl["profit"] * rates[ci], 0)
            c.ob("client%d.commission" % ci, c.close(cl["commission"], exp_comm, HALF))
            c.ob("client%d.commission>=0" % ci, cl["commission"] >= 0)
            c.ob("client%d.no-commission-on-loss" % ci, c.Implies(cl["profit"] <= 0, cl["commission"] == 0))
            c.ob("client%d.outcome" % ci, cl["betOutcome"] == ("WON" if c.is_true(cl["profit"] >= 0) else "LOST"))
        c.cover("cleared")


def h08d(c):
    """re-settlement: two successive CLOSED updates with different results through the real simulation loop: each order's profit
    and the last cleared summary follow the FINAL result"""
    from flumine.events import events
    from flumine.events.events import EventType
    with cm.config_set(simulated=True):
        fl, (client,), (strategy,) = cm.new_sim()
        log = []
        fl.add_logging_control(cm.NS(NAME="rec", logging_queue=cm.NS(put=log.append)))
        market = cm.add_market(fl, cm.book([cm.runner(1), cm.runner(2)]))
        o, d = _matched_order(c, "o", strategy, "S", kinds=["LIMIT"], unmatched_too=False)
        o.update_client(client)
        market.blotter[o.id] = o
        o.status = OrderStatus.EXECUTION_COMPLETE
        results = [c.choose("result%d" % k, ["WINNER", "LOSER"]) for k in range(2)]
        extra = [c.choose("other_dead_heating_winners%d" % k, [0, 1]) if results[k] == "WINNER" else 0 for k in range(2)]
        c.tag("results", "/".join("%s+%d" % (r, e) for r, e in zip(results, extra)))
        for k, res in enumerate(results):
            bk = _close_book(c, {(1, 0): res}, "WIN", None, extra[k])
            bk.version = 10 + k
            with c.guard("close-%d" % k):
                fl._process_market_books(events.MarketBookEvent([bk]))
            orc, _ = oracle_profit(c, d, res, "WIN", None, 1 + extra[k], None)
            c.ob("close%d.profit-follows-this-result" % k, c.close(o.profit, orc, HALF))
            cleared = [e for e in log if e.EVENT_TYPE == EventType.CLEARED_MARKETS]
            c.ob("close%d.summary-logged" % k, len(cleared) == k + 1)
            if cleared:
                summ = cleared[-1].event.orders[0]
                c.ob("close%d.summary-profit-follows-this-result" % k, c.close(summ.profit, orc, HALF))
                c.ob("close%d.commission-only-on-win" % k, c.Implies(summ.profit <= 0, summ.commission == 0))
        if results[0] != results[1]:
            c.cover("amended-result")
        c.cover("resettled")


K_SIZES = [1.0, 2.0, 6.0, 9.0]


def h08k(c, n_max=3):
    """what the exchange pays on the FILLS: an order filled in up to n_max pieces through the real SimulatedOrder._update_matched
    (sizes from a concrete set, every price symbolic), then settled as a winner/loser: the reported average is the volume-weighted
    average of the fills to within the half cent of its one rounding, and profit is the sum over the fills to within that half cent
    times the matched size (plus the half cent of profit's own rounding)"""
    with cm.config_set(simulated=True):
        fl, (client,), (strategy,) = cm.new_sim()
        market = cm.add_market(fl, cm.book([cm.runner(1), cm.runner(2)]))
        side = c.choose("side", ["BACK", "LAY"])
        n = c.choose("n_fills", list(range(1, n_max + 1)))
        sizes = [c.choose("s%d" % i, K_SIZES) for i in range(n)]
        prices = [c.cents("p%d" % i, 101, 100000) for i in range(n)]
        tot = sum(sizes)
        o = cm.mk_limit(strategy, side, 2.0, tot)
        o.update_client(client)
        market.blotter[o.id] = o
        with c.guard("fills"):
            for i in range(n):
                o.simulated._update_matched([cm.T0_MS + i, prices[i], sizes[i]])
        sim = o.simulated
        c.ob("fills-recorded", len(sim.matched) == n)
        c.ob("size_matched=sum(fills)", sim.size_matched == tot)
        a = cm.total([prices[i] * sizes[i] for i in range(n)])
        apm = sim.average_price_matched
        c.observe("average_price_matched", apm)
        c.ob("average=vwap(fills) to the half cent", c.And(apm * tot - a <= HALF * tot, a - apm * tot <= HALF * tot))
        status = c.choose("runner_status", ["WINNER", "LOSER"])
        c.tag("side", side); c.tag("n", n); c.tag("status", status)
        bk = _close_book(c, {(1, 0): status}, "WIN", None, 0)
        with c.guard("process_closed_market"):
            market.blotter.process_closed_market(market, bk)
        with c.guard("profit"):
            p = o.profit
        c.observe("profit", p)
        paid = (a - tot) if status == "WINNER" else -tot
        c.ob("profit=sum-over-fills", c.close(p, _sgn(side, paid), HALF * tot + HALF))
        if n >= 3:
            c.cover("three-fills")
        c.cover("settled")


OUT = ["each-way dead heats and multi-winner dead heats (flumine logs them as unhandled)",
       "the relation between average_price_matched and the individual fills beyond H08k (up to 3/4 fills, fill sizes from {1, 2, 6, 9}, every price)",
       "more than 2 orders per client"]
from .c18 import h18c as _h18c  # noqa: E402

HARNESSES = [
    Harness("H08e", _h18c, quick=dict(N=3, focus="C08"), thorough=dict(N=5, focus="C08"), pattern="P3 bounded history (schedule symbolic)", requires=["cleared", "replaced"], selfcheck=False, outside=OUT),
    Harness("H08a-S", h08a, quick=dict(mode="S"), pattern="P1 kernel-with-oracle", requires=["settled", "line-tie", "dead-heat", "each-way", "unmatched"], outside=OUT),
    Harness("H08a-P", h08a, quick=dict(mode="P"), pattern="P1 kernel-with-oracle", requires=["settled", "dead-heat", "each-way"], outside=OUT),
    Harness("H08f", h08f, pattern="P3 short history (real middleware re-states the matched size, then settlement)", requires=["rescaled-then-settled"], outside=OUT),
    Harness("H08k", h08k, quick=dict(n_max=3), thorough=dict(n_max=4), pattern="P1 kernel-with-oracle (real _update_matched per fill, then settlement)", requires=["settled", "three-fills"], outside=OUT),
    Harness("H08c", h08c, pattern="P1 kernel-with-oracle", requires=["assigned"], outside=OUT),
    Harness("H08d", h08d, pattern="P3 short history", requires=["resettled", "amended-result"], outside=OUT),
    Harness("H08b", h08b, quick=dict(n_orders=2), thorough=dict(n_orders=3), pattern="P1 kernel-with-oracle", requires=["cleared"], outside=OUT),
]
META = {"assumptions": ["profit is settled on (size_matched, average_price_matched) as reported; matched sizes/prices: one factor of each product from a finite set"]}
