"""symbolic positions (sets of real orders in arbitrary state) and the independent worst-case-loss oracle
used by C16 (reported exposure) and C01 (exposure limits)"""
import itertools

from flumine.order.order import OrderStatus
from flumine.order.ordertype import OrderTypes
from . import common as cm

PRICES_K = [1.01, 1.5, 2.0, 2.02, 3.5, 11.0, 48.0, 1000.0]  # finite price set for mode "S" (sizes symbolic)
SIZES_K = [0.01, 0.5, 2.0, 7.25, 100.0]  # finite size set for mode "P" (prices symbolic)
LINES_K = [0.5, 1.5, 2.5, 10.0]  # line values (LINE_RANGE "prices" are lines; bets are struck at 2.0)

STATUS_QUICK = [OrderStatus.PENDING, OrderStatus.EXECUTABLE, OrderStatus.CANCELLING, OrderStatus.UPDATING,
                OrderStatus.REPLACING, OrderStatus.EXECUTION_COMPLETE, OrderStatus.VIOLATION]
STATUS_ALL = [OrderStatus.PENDING, OrderStatus.EXECUTABLE, OrderStatus.CANCELLING, OrderStatus.UPDATING,
              OrderStatus.REPLACING, OrderStatus.EXECUTION_COMPLETE, OrderStatus.VIOLATION]
KINDS = ["LIMIT", "LINE", "LOC", "MOC"]


def sym_price(c, name, mode):
    return c.cents(name, 101, 100000) if mode == "P" else c.pick(name, PRICES_K)


def sym_size(c, name, mode, hi=1000000):
    return c.pick(name, SIZES_K) if mode == "P" else c.cents(name, 1, hi)


def mk_position_order(c, tag, strategy, mode, selection_id=1, statuses=STATUS_QUICK, kinds=KINDS, new=False, side=None,
                      status=None, msplits=("none", "part", "all"), part_cancel=True, new_tif=False):
    """one real order of `strategy` in a symbolic state; returns (order, descriptor)"""
    if not new:
        # the status is a lazily symbolic finite-domain value: paths fork only where the code distinguishes statuses
        status = status or c.enum("%s_status" % tag, statuses)
    kind = c.choose("%s_kind" % tag, kinds)
    side = side or c.choose("%s_side" % tag, ["BACK", "LAY"])
    d = dict(kind=kind, side=side, tag=tag)
    if kind in ("LIMIT", "LINE"):
        size = sym_size(c, "%s_size" % tag, mode)
        if kind == "LIMIT":
            price = sym_price(c, "%s_price" % tag, mode)
            # (a prospective fill-or-kill order is at risk for its full size like any other order: its worst case is a complete fill)
            tif = c.choose("%s_time_in_force" % tag, [None, "FILL_OR_KILL"]) if (new and new_tif) else None
            order = cm.mk_limit(strategy, side, price, size, selection_id=selection_id, tif=tif)
        else:
            price = c.pick("%s_line" % tag, LINES_K)
            order = cm.mk_limit(strategy, side, price, size, selection_id=selection_id, ladder_def="LINE_RANGE")
        d.update(size=size, price=price)
    elif kind == "LOC":
        liab = sym_size(c, "%s_liab" % tag, mode)
        price = sym_price(c, "%s_price" % tag, mode)
        order = cm.mk_loc(strategy, side, liab, price, selection_id=selection_id)
        d.update(liability=liab, price=price)
    else:
        liab = sym_size(c, "%s_liab" % tag, mode)
        order = cm.mk_moc(strategy, side, liab, selection_id=selection_id)
        d.update(liability=liab)
    if new:
        d.update(status=None, matched=0, avg=0, remaining=d.get("size"), complete=False, has_matched=False)
        return order, d
    d["status"] = status
    sim = order.simulated
    if kind in ("LIMIT", "LINE"):
        # matched / cancelled split: fractions keep everything linear in either mode
        msplit = c.choose("%s_matched" % tag, list(msplits))
        if msplit == "none":
            m = 0
        elif msplit == "all":
            m = size
        else:
            m = c.cents("%s_m" % tag, 1, 1000000) if mode != "P" else c.pick("%s_m" % tag, [0.01, 0.25, 1.0])
            c.assume(m < size)
        canc = 0
        if msplit != "all" and part_cancel and c.choose("%s_part_cancelled" % tag, [False, True]):
            canc = c.cents("%s_c" % tag, 1, 1000000) if mode != "P" else c.pick("%s_c" % tag, [0.01, 0.25])
            c.assume(m + canc <= size)
        if msplit != "none":
            ap = sym_price(c, "%s_avg" % tag, mode) if kind == "LIMIT" else price
            sim.matched = [[0, ap, m]]
            sim.size_matched = m
            sim.average_price_matched = ap
        else:
            ap = 0
        sim.size_cancelled = canc
        d.update(matched=m, avg=ap, remaining=size - m - canc, has_matched=msplit != "none")
    else:
        d.update(matched=0, avg=0, remaining=0, has_matched=False)
    d["complete"] = enum_in(status, COMPLETE)
    return order, d


COMPLETE = (OrderStatus.EXECUTION_COMPLETE, OrderStatus.VIOLATION, OrderStatus.EXPIRED)
LEFT_OUT = (OrderStatus.PENDING, OrderStatus.VIOLATION, OrderStatus.EXPIRED)


def enum_in(status, members):
    if hasattr(status, "is_in"):
        return status.is_in(members)
    return status in members


def install(fl, market, strategy, order, d, bet_id):
    """put the order into the real blotter with its (possibly symbolic) status; `complete` is the documented function
    of the status (BaseOrder._is_complete)"""
    order.update_client(fl.clients.get_default())
    order.bet_id = str(bet_id)
    market.blotter[order.id] = order
    order.status = d["status"]
    order.complete = d["complete"]


# ---------------------------------------------------------------------------------------------------------------
# oracle: written from the exchange's settlement rules, by brute force over which open orders fill
# ---------------------------------------------------------------------------------------------------------------
def counted(c, d):
    """orders refused or still awaiting acknowledgement are left out; every other order is counted"""
    if d["status"] is None:
        return True
    return c.Not(enum_in(d["status"], LEFT_OUT))


def _pl(side, price, stake):
    """(profit if the selection wins, profit if it loses) of a matched bet"""
    if side == "BACK":
        return (price - 1) * stake, -stake
    return -((price - 1) * stake), stake


def order_outcomes(c, d):
    """fixed part (already matched / SP liability) and optional part (remaining, if it fills at its limit); parts that
    do not apply are 0 (ite over the symbolic status)"""
    cnt = counted(c, d)
    fixed_w, fixed_l = 0, 0
    opt = None
    if d["kind"] in ("LIMIT", "LINE"):
        struck = 2.0 if d["kind"] == "LINE" else None
        if d["has_matched"]:
            fixed_w, fixed_l = _pl(d["side"], struck or d["avg"], d["matched"])
        live = c.And(cnt, c.Not(d["complete"]))
        w, l = _pl(d["side"], struck or d["price"], d["remaining"])
        opt = (c.ite(live, w, 0), c.ite(live, l, 0))
    else:
        # starting-price orders: worst case is the liability (a BACK loses its stake if the selection loses,
        # a LAY loses its liability if it wins); the upside is not counted
        if d["side"] == "BACK":
            fixed_l = -d["liability"]
        else:
            fixed_w = -d["liability"]
    return (c.ite(cnt, fixed_w, 0), c.ite(cnt, fixed_l, 0)), opt


def worst_case(c, ds):
    """(worst profit if the selection wins, worst profit if it loses) by brute force over the subsets of open
    orders that fill"""
    oc = [order_outcomes(c, d) for d in ds]
    fixed_w = cm.total([o[0][0] for o in oc])
    fixed_l = cm.total([o[0][1] for o in oc])
    opts = [o[1] for o in oc if o[1] is not None]
    wins, loses = [], []
    for mask in itertools.product([0, 1], repeat=len(opts)):
        wins.append(fixed_w + cm.total([o[0] for o, b in zip(opts, mask) if b]))
        loses.append(fixed_l + cm.total([o[1] for o, b in zip(opts, mask) if b]))
    return c.smin(*wins) if len(wins) > 1 else wins[0], c.smin(*loses) if len(loses) > 1 else loses[0]


def market_worst(c, per_selection, n_winners, n_active):
    """worst profit over every admissible set of exactly min(n_winners, n_active) winners; runners without bets
    contribute 0 either way"""
    S = len(per_selection)
    unbet = max(n_active - S, 0)
    W = min(n_winners, max(n_active, S))
    cands = []
    for j in range(0, min(W, S) + 1):
        if W - j > unbet:
            continue
        for winners in itertools.combinations(range(S), j):
            t = 0
            for i, (w, l) in enumerate(per_selection):
                t = t + (w if i in winners else l)
            cands.append(t)
    return c.smin(*cands) if len(cands) > 1 else cands[0]
