"""C05 Fills never breach the order's limit; fill-or-kill is all-or-nothing"""
from symx.run import Harness
from symx import core
from flumine.order.order import OrderStatus
from flumine.order.orderpackage import OrderPackageType
from . import common as cm

HALF_CENT = core.fractions.Fraction(1, 200)


def place_world(c, L, allow_sfm=True, fok_choices=(None, "FILL_OR_KILL"), vwap="exclude", concrete_sizes=None):
    """a real simulation framework, one market with a symbolic book, one new limit order; returns after the
    real SimulatedExecution.execute_place handled the placement package"""
    side = c.choose("side", ["BACK", "LAY"])
    bpe = c.choose("best_price_execution", [True, False])
    sfm = c.choose("simulated_full_match", [False, True]) if allow_sfm else False
    tif = c.choose("time_in_force", list(fok_choices))
    price = c.cents("price", 101, 100000)
    if concrete_sizes:
        size = c.choose("size", concrete_sizes["order"])
    else:
        size = c.cents("size", 1, 1000000)
    # (a minimum fill size may also be given on a plain limit order: it is then not a fill-or-kill order)
    mfs = c.cents("min_fill", 1, 2000000) if c.choose("min_fill_given", [False, True]) else None
    n_atb = c.choose("n_atb", range(L + 1))
    n_atl = c.choose("n_atl", range(L + 1))
    atb = cm.ladder(c, "b", n_atb, "atb")
    atl = cm.ladder(c, "l", n_atl, "atl")
    if concrete_sizes:
        for i, lv in enumerate(atb):
            lv["size"] = c.choose("bs%d_c" % i, concrete_sizes["level"])
        for i, lv in enumerate(atl):
            lv["size"] = c.choose("ls%d_c" % i, concrete_sizes["level"])
    if n_atb and n_atl:
        c.assume(atb[0]["price"] < atl[0]["price"])
    if (tif == "FILL_OR_KILL" or vwap == "only") and bpe:
        # the VWAP sweep (fill-or-kill priced strictly through the best price) multiplies prices by sizes:
        # with both symbolic the obligations are non-linear integer arithmetic that z3 does not decide in
        # the budget, so that branch is explored by H05c with concrete sizes (all prices still symbolic)
        best = (atb[0]["price"] if atb else None) if side == "BACK" else (atl[0]["price"] if atl else None)
        through = False if best is None else ((price < best) if side == "BACK" else (price > best))
        if vwap == "exclude":
            c.assume(c.Not(through))
        elif vwap == "only":
            c.assume(through)
    elif vwap == "only":
        c.assume(False)
    ver = c.choose("package_market_version", ["none", "match", "mismatch"])
    c.tag("side", side); c.tag("tif", tif); c.tag("bpe", bpe); c.tag("sfm", sfm); c.tag("version", ver)

    fl, (client,), (strategy,) = cm.new_sim(client_kwargs=dict(best_price_execution=bpe, simulated_full_match=sfm))
    # another handicap line of the same selection, listed first, with a very different ladder: the order is on line 0
    decoy = cm.runner(1, handicap=1.5, atb=[{"price": 900.0, "size": 5000.0}], atl=[{"price": 1.01, "size": 5000.0}])
    bk = cm.book([decoy, cm.runner(1, atb=atb, atl=atl)], version=7)
    market = cm.add_market(fl, bk)
    order = cm.mk_limit(strategy, side, price, size, tif=tif, mfs=mfs)
    mv = {"none": None, "match": 7, "mismatch": 6}[ver]
    with c.guard("place_order"):
        market.place_order(order, market_version=mv, force=True)
    assert len(fl.handler_queue) == 1
    pkg = fl.handler_queue.pop()
    with c.guard("execute_place"):
        client.execution.handler(pkg)
    return dict(side=side, bpe=bpe, sfm=sfm, tif=tif, price=price, size=size, mfs=mfs, atb=atb, atl=atl, ver=ver,
                order=order, fl=fl, market=market, client=client, strategy=strategy)


def h05a(c, L=2, vwap="exclude", concrete_sizes=None):
    """one placement through the real SimulatedExecution.execute_place -> SimulatedOrder.place on a symbolic book"""
    with cm.config_set(simulated=True):
        w = place_world(c, L, vwap=vwap, concrete_sizes=concrete_sizes, allow_sfm=(vwap != "only"),
                        fok_choices=(None, "FILL_OR_KILL"))
        order, side, price, size = w["order"], w["side"], w["price"], w["size"]
        sim = order.simulated
        frags = list(sim.matched)
        fok = w["tif"] == "FILL_OR_KILL"
        avail = w["atb"] if side == "BACK" else w["atl"]  # the side the order can cross against
        c.observe("n_fragments", len(frags))
        c.observe("size_matched", sim.size_matched)
        c.observe("size_remaining", sim.size_remaining)
        c.observe("size_cancelled", sim.size_cancelled)
        c.observe("size_lapsed", sim.size_lapsed)
        c.observe("status", order.status.value)
        if frags:
            c.cover("fill")
        if len(frags) > 1:
            c.cover("multi-level-fill")
        # conservation at the response (C04 clause, cheap to assert here too)
        c.ob("conservation", sim.size_matched + sim.size_remaining + sim.size_cancelled + sim.size_lapsed + sim.size_voided == size)
        c.ob("remaining>=0", sim.size_remaining >= 0)
        tot = cm.total([f[2] for f in frags])
        # (with the concrete sizes of H05c the harness's own float sum carries noise: 0.01 + 3.0 + 0.01 = 3.0199999999999996)
        exact = hasattr(tot, "n") or hasattr(sim.size_matched, "n")  # symbolic values are exact decimals
        c.ob("size_matched=sum(fragments)", (sim.size_matched == tot) if exact else abs(sim.size_matched - tot) <= 1e-9)
        c.ob("matched<=size", sim.size_matched <= size)
        for i, (pt, p, s) in enumerate(frags):
            c.ob("fragment%d.size>0" % i, s > 0)
            if not fok or vwap == "exclude":
                # (a fill-or-kill order at the best price takes single levels at/through its limit too)
                c.ob("fragment%d.price-within-limit" % i, (p >= price) if side == "BACK" else (p <= price))
            if not w["sfm"]:
                # never more than was available at that level: some level has this price and at least this size
                c.ob("fragment%d.within-level" % i, c.Or(*[c.And(p == lv["price"], s <= lv["size"]) for lv in avail]) if avail else False)
                for j in range(i):
                    c.ob("fragment%d.level-distinct-from-%d" % (i, j), p != frags[j][1])
        if not fok:
            c.ob("plain-limit-order.nothing-cancelled-on-arrival", sim.size_cancelled == 0)
        if fok and frags:
            c.cover("fok-fill")
        if fok and frags and vwap == "only":
            a = cm.total([f[1] * f[2] for f in frags])
            # reported average satisfies the limit; exact VWAP within the half cent of its 2dp rounding
            apm = sim.average_price_matched
            c.ob("fok.reported-average-within-limit", (apm >= price) if side == "BACK" else (apm <= price))
            if side == "BACK":
                c.ob("fok.vwap-within-limit", a >= (price - HALF_CENT) * tot)
            else:
                c.ob("fok.vwap-within-limit", a <= (price + HALF_CENT) * tot)
        if fok:
            need = w["mfs"] if w["mfs"] is not None else size
            c.ob("fok.all-or-nothing", c.Or(sim.size_matched == 0, sim.size_matched >= need))
            c.ob("fok.never-rests", sim.size_remaining == 0)
            c.ob("fok.sim-status-complete", sim.status == "EXECUTION_COMPLETE")
            if not frags:
                c.cover("fok-kill")
            if w["mfs"] is not None:
                if c.is_true(w["mfs"] > size):
                    c.cover("fok-invalid-min-fill")
                    c.ob("fok.invalid-min-fill-nothing-matched", sim.size_matched == 0)
        if not w["bpe"] and w["ver"] != "mismatch":  # noqa
            best = (w["atb"][0]["price"] if w["atb"] else 1.01) if side == "BACK" else (w["atl"][0]["price"] if w["atl"] else 1000)
            improved = (best > price) if side == "BACK" else (best < price)
            if c.is_true(improved):
                c.cover("bpe-lapse")
                c.ob("bpe-off.no-fill", sim.size_matched == 0)
                invalid_mfs = fok and w["mfs"] is not None and c.is_true(w["mfs"] > size)
                if not invalid_mfs:  # an invalid min fill size is rejected before the price is looked at
                    c.ob("bpe-off.lapses", sim.size_lapsed == size)
        if w["ver"] == "mismatch":
            c.cover("version-lapse")
            c.ob("version-mismatch.lapses", c.And(sim.size_matched == 0, sim.size_lapsed == size))
        if not fok and not w["sfm"] and c.is_true(sim.size_remaining > 0):
            c.cover("rest")
            c.ob("rest.status-executable", order.status == OrderStatus.EXECUTABLE)


def h05b(c, V=2):
    """a resting order and one real SimulatedOrder.__call__ with traded volume: every new fragment is at the order's
    own price and within what remains"""
    avail = c.choose("simulation_available_prices", [False, True])
    with cm.config_set(simulated=True, simulation_available_prices=avail):
        side = c.choose("side", ["BACK", "LAY"])
        price = c.cents("price", 101, 100000)
        size = c.cents("size", 1, 1000000)
        m0 = c.cents("pre_matched", 0, 1000000)
        c.assume(m0 < size)
        piq = c.cents("piq", 0, 1000000)
        fl, (client,), (strategy,) = cm.new_sim()
        bk = cm.book([cm.runner(1)], version=7)
        market = cm.add_market(fl, bk)
        order = cm.mk_limit(strategy, side, price, size)
        cm.place_resting(fl, market, strategy, order, 1)
        sim = order.simulated
        sim.market_version = 7
        sim._piq = piq
        if c.is_true(m0 > 0):
            sim.matched = [[0, price, m0]]
            sim.size_matched = m0
            sim.average_price_matched = price
        tprices = [1.5, 2.0, 3.0][:V]
        traded = {}
        for i, tp in enumerate(tprices):
            if c.choose("traded%d_present" % i, [True, False]):
                traded[tp] = c.cents("traded%d" % i, 1, 2000000)
        levels = []
        if avail:
            # the (non-default) mode that also matches a resting order against the prices on offer in each later book
            traded = {}
            levels = cm.ladder(c, "lv", V, "atb" if side == "BACK" else "atl")
            if side == "BACK":
                bk.runners[0].ex.available_to_back = levels
            else:
                bk.runners[0].ex.available_to_lay = levels
        before = len(sim.matched)
        rem_before = sim.size_remaining
        with c.guard("__call__"):
            sim(bk, (bk.runners[0], traded))
        new = sim.matched[before:]
        c.observe("new_fragments", len(new))
        c.observe("size_remaining", sim.size_remaining)
        if new:
            c.cover("passive-fill")
        tot = 0
        for i, (pt, p, s) in enumerate(new):
            c.ob("passive%d.at-own-price" % i, p == price)
            c.ob("passive%d.size>0" % i, s > 0)
            tot = tot + s
        c.ob("passive.total<=remaining", tot <= rem_before)
        if avail:
            offered = 0
            for lv in levels:
                offered = offered + c.ite((lv["price"] >= price) if side == "BACK" else (lv["price"] <= price), lv["size"], 0)
            c.ob("available.total<=offered-at-or-through-the-limit", tot <= offered)
            if new:
                c.cover("available-fill")
        c.ob("remaining>=0", sim.size_remaining >= 0)
        eligible = [tp for tp in traded if c.is_true((tp >= price) if side == "BACK" else (tp <= price))]
        if not eligible and not avail:
            c.cover("no-eligible-trade")
            c.ob("no-eligible-trade.no-fill", len(new) == 0)


def h05d(c):
    """two placements batched in one package; the first order is completed while the package is in flight (its runner is removed and the
    middleware voids it), then the real SimulatedExecution.execute_place handles the package: the second order - fill-or-kill with a
    symbolic minimum fill against a symbolic level - is still matched by ITS OWN instruction (time in force, minimum fill, price)"""
    from flumine.events import events
    with cm.config_set(simulated=True, place_latency=0.0):
        fl, (client,), (strategy,) = cm.new_sim(strategy_kwargs=dict(max_live_trade_count=10))
        first_completes = c.choose("first_order_completes_in_flight", [True, False])
        side = c.choose("side", ["BACK", "LAY"])
        size = c.cents("size", 1, 1000000)
        mfs = c.cents("min_fill", 1, 1000000) if c.choose("min_fill_given", [False, True]) else None
        lvl = c.cents("level_size", 1, 1000000)
        atb = [{"price": 3.0, "size": lvl}] if side == "BACK" else []
        atl = [{"price": 3.0, "size": lvl}] if side == "LAY" else []
        bk0 = cm.book([cm.runner(1, atb=atb, atl=atl), cm.runner(2, adjustment_factor=10.0)], version=7)
        market = cm.add_market(fl, bk0)
        fl._market_middleware[0](market)
        a = cm.mk_limit(strategy, "BACK", 2.0, 5.0, selection_id=2)
        b = cm.mk_limit(strategy, side, 3.0, size, tif="FILL_OR_KILL", mfs=mfs)
        with market.transaction() as t:
            t.place_order(a, force=True)
            t.place_order(b, force=True)
        assert len(fl.handler_queue) == 1
        pkg = fl.handler_queue.pop()
        if first_completes:
            bk1 = cm.book([cm.runner(1, atb=atb, atl=atl), cm.runner(2, status="REMOVED", adjustment_factor=10.0)], version=7, pt_ms=cm.T0_MS + 50)
            with c.guard("removal"):
                market(bk1)
                fl._market_middleware[0](market)
                fl._process_simulated_orders(market)
            c.cover("first-completed-in-flight")
        with c.guard("execute_place"):
            client.execution.handler(pkg)
        sim = b.simulated
        need = mfs if mfs is not None else size
        c.ob("fok.all-or-nothing", c.Or(sim.size_matched == 0, sim.size_matched >= need))
        c.ob("fok.never-rests", sim.size_remaining == 0)
        c.ob("fok.within-level", sim.size_matched <= lvl)
        c.ob("conservation", sim.size_matched + sim.size_remaining + sim.size_cancelled + sim.size_lapsed + sim.size_voided == size)
        c.ob("fok.has-bet-id-or-failed", b.bet_id is not None or b.status == OrderStatus.EXECUTION_COMPLETE)
        c.cover("batched")


def h05e(c):
    """starting-price reconciliation of a limit-on-close order through the real SimulatedOrder.__call__ / _process_sp with a symbolic
    starting price (any value with 3 decimals): a BACK order is filled only when the starting price is at or above its limit, a LAY order only
    at or below it, and the fill is recorded at the starting price itself"""
    with cm.config_set(simulated=True):
        side = c.choose("side", ["BACK", "LAY"])
        limit = c.cents("limit_price", 101, 100000)
        liab = c.pick("liability", [2.0, 10.0, 50.0])
        sp = c.mills("starting_price", 1010, 1000000)
        fl, (client,), (strategy,) = cm.new_sim()
        r1 = cm.runner(1)
        bk = cm.book([r1], version=7)
        market = cm.add_market(fl, bk)
        o = cm.mk_loc(strategy, side, liab, limit)
        cm.place_resting(fl, market, strategy, o, 1)
        r1.sp = cm.SP(actualSP=sp)
        bk2 = cm.book([r1], version=7, pt_ms=cm.T0_MS + 1000, bsp_reconciled=True, inplay=True)
        with c.guard("__call__"):
            o.simulated(bk2, (r1, {}))
        frags = o.simulated.matched
        within = (sp >= limit) if side == "BACK" else (sp <= limit)
        c.ob("limit-on-close.filled<=>starting-price-within-limit", within if frags else c.Not(within), fragments=len(frags))
        for f in frags:
            c.ob("limit-on-close.fill-at-the-starting-price", f[1] == sp)
            c.ob("limit-on-close.fill-within-limit", (f[1] >= limit) if side == "BACK" else (f[1] <= limit))
        if side == "BACK" and frags:
            c.ob("limit-on-close.back-stake=liability", frags[0][2] == liab)
        c.ob("limit-on-close.complete-after-reconciliation", o.status == OrderStatus.EXECUTION_COMPLETE)
        c.cover("reconciled")
        if frags:
            c.cover("sp-fill")


def h05g(c):
    """an order is matched against a level once: a batching transaction with explicit execute() calls (C01 world) never hands an order to the
    simulated exchange twice - a second placement would take from the same level again"""
    from .c01 import h01t
    from .c06 import _Only
    h01t(_Only(c, ("handed-to-exchange-exactly-once", "handed-over-at-most-once", "never-sent", "no-exception")))


CS_Q = dict(order=[2.0, 5.0], level=[1.0, 3.0, 7.0])
CS_T = dict(order=[0.03, 2.0, 5.0], level=[0.01, 1.0, 3.0])
HARNESSES = [
    Harness("H05a", h05a, quick=dict(L=2), thorough=dict(L=3), pattern="P1 kernel-with-oracle",
            requires=["fill", "multi-level-fill", "fok-fill", "fok-kill", "fok-invalid-min-fill", "bpe-lapse", "version-lapse", "rest"],
            outside=["simulated_full_match for the level-availability clause (property text)", "books deeper than L levels per side",
                     "fill-or-kill orders priced strictly through the best price (VWAP sweep): covered by H05c with concrete sizes"]),
    Harness("H05c", h05a, quick=dict(L=2, vwap="only", concrete_sizes=CS_Q), thorough=dict(L=3, vwap="only", concrete_sizes=CS_T),
            pattern="P1 kernel-with-oracle", requires=["fok-fill", "fok-kill", "multi-level-fill"],
            outside=["VWAP sweep with order/level sizes outside the listed concrete sets (prices: every 2dp value, symbolic)"]),
    Harness("H05e", h05e, pattern="P1 kernel-with-oracle (starting price symbolic)", requires=["reconciled", "sp-fill"], selfcheck=False),
    Harness("H05g", h05g, pattern="P3 short history (batching transaction -> real simulated execution)", requires=["accepted"], selfcheck=False),
    Harness("H05d", h05d, pattern="P5 (order completed in flight) + P1", requires=["batched", "first-completed-in-flight"]),
    Harness("H05b", h05b, quick=dict(V=2), thorough=dict(V=3), pattern="P2 inductive step", requires=["passive-fill", "no-eligible-trade", "available-fill"],
            outside=["traded ladders with more than V price points per update (prices concrete: 1.5, 2.0, 3.0)"]),
]
META = {"assumptions": ["Python float modelled as exact decimal rational; round() relational (both neighbours at exact ties)",
                        "book and order prices range over every 2dp value in [1.01, 1000], sizes over every 2dp value up to 10000"]}
