"""C09 Runner removal voids bets on the runner and reduces the others once"""
from symx.run import Harness
from flumine.order.order import OrderStatus
from flumine.order.orderpackage import OrderPackageType
from . import common as cm
from . import simstate as ss

HALF = 0.005
MID2 = "1.100000002"
LIABS = [2.0, 10.0, 37.5, 200.0]


def _af(c, name, kinds=("none", "zero", "just-under-threshold", "sym")):
    k = c.choose(name + "_kind", list(kinds))
    if k == "none":
        return None, k
    if k == "zero":
        return 0, k
    if k == "just-under-threshold":
        return 2.4, k  # (a concrete factor below the 2.5 threshold: the comparison is decided without the solver)
    return c.cents(name, 1, 9900), k  # every 2dp factor in (0, 99]


def _reduced(c, p, f):
    """exchange rule: price x (1 - f/100), to the cent, never below 1.01; only when f >= 2.5 (win market threshold)"""
    return p * (1 - f / 100)


def _frag_obligations(c, tag, before, after, f, applies):
    c.ob("%s.fragment-count" % tag, len(before) == len(after))
    for i, (b, a) in enumerate(zip(before, after)):
        c.ob("%s.f%d.size-unchanged" % (tag, i), a[2] == b[2])
        if applies is False:
            c.ob("%s.f%d.price-unchanged" % (tag, i), a[1] == b[1])
        else:
            exact = _reduced(c, b[1], f)
            ok_red = c.Or(c.And(c.close(a[1], exact, HALF), a[1] >= 1.01), c.And(a[1] == 1.01, exact <= 1.015))
            c.ob("%s.f%d.price-reduced-once" % (tag, i), c.Or(c.And(applies, ok_red), c.And(c.Not(applies), a[1] == b[1])))


def _applies(c, f, kind):
    if kind in ("none", "zero", "just-under-threshold"):
        return False
    return f >= 2.5


def _removal_book(market_id, version, pt_ms, removed, md):
    rs = [cm.runner(1), cm.runner(2), cm.runner(3)]
    for sel, af in removed.items():
        rs[sel - 1].status = "REMOVED"
        rs[sel - 1].adjustment_factor = af
    return cm.book(rs, market_id=market_id, version=version, pt_ms=pt_ms, md=md)


def h09a(c, max_frags=1):
    """one removal in one market: orders on the removed runner are voided in full and complete; fragments on the other
    runner are reduced exactly once; SP lay liabilities are scaled by the exchange formula; a second call is a no-op"""
    with cm.config_set(simulated=True):
        fl, (client,), (strategy,) = cm.new_sim()
        mw = fl._market_middleware[0]
        b_kind = c.choose("b_kind", ["LIMIT", "MOC-LAY", "MOC-LAY-matched", "MOC-BACK", "MOC-BACK-matched"])
        c.tag("b_kind", b_kind)
        mtype = c.choose("market_type", ["WIN", "PLACE", "OTHER_PLACE", "EACH_WAY"] if (b_kind.startswith("MOC-LAY") or b_kind == "LIMIT") else ["WIN", "EACH_WAY"])
        md = cm.market_definition(market_type=mtype)
        bk1 = cm.book([cm.runner(1), cm.runner(2), cm.runner(3)], version=7, md=md)
        market = cm.add_market(fl, bk1)
        mw(market)
        # order A on the runner that is removed
        a_state = c.choose("a_state", ["resting", "resting-sp", "pending-placement", "completed"])
        c.tag("a_state", a_state)
        pkg = None
        if a_state == "resting":
            A, da = ss.resting_limit(c, "a", fl, market, strategy, 100, selection_id=1, max_frags=max_frags, persistence="LAPSE",
                                     statuses=[OrderStatus.EXECUTABLE, OrderStatus.CANCELLING] if b_kind == "LIMIT" else [OrderStatus.EXECUTABLE],
                                     price=3.0)
        elif a_state == "resting-sp":
            # a starting-price order resting at the exchange, waiting for the reconciliation that will never come for a removed runner
            a_kind = c.choose("a_kind", ["MOC", "LOC"])
            c.tag("a_kind", a_kind)
            a_side = c.choose("a_side", ["BACK", "LAY"])
            A = cm.mk_moc(strategy, a_side, c.cents("a_liability", 1, 1000000), selection_id=1) if a_kind == "MOC" else \
                cm.mk_loc(strategy, a_side, c.cents("a_liability", 1, 1000000), 3.0, selection_id=1)
            cm.place_resting(fl, market, strategy, A, 100)
        elif a_state == "completed":
            A, da = ss.resting_limit(c, "a", fl, market, strategy, 100, selection_id=1, max_frags=max_frags, status=OrderStatus.EXECUTABLE,
                                     persistence="LAPSE", price=3.0, side="BACK")
            A.simulated.size_lapsed = A.simulated.size_remaining
            A.execution_complete()
            market.blotter.complete_order(A)
        else:
            a_kind = c.choose("a_kind", ["LIMIT", "MOC", "LOC"])
            c.tag("a_kind", a_kind)
            a_side = c.choose("a_side", ["BACK", "LAY"])
            if a_kind == "LIMIT":
                A = cm.mk_limit(strategy, a_side, 3.0, c.cents("a_size", 1, 1000000), selection_id=1)
            elif a_kind == "MOC":
                A = cm.mk_moc(strategy, a_side, c.cents("a_liability", 1, 1000000), selection_id=1)
            else:
                A = cm.mk_loc(strategy, a_side, c.cents("a_liability", 1, 1000000), 3.0, selection_id=1)
            market.place_order(A, force=True)
            pkg = fl.handler_queue.pop()
        # order B on another runner
        own_af = c.pick("own_adjustment_factor", [0.0, 5.0, 20.0, 37.5])  # 0.0: a factor of exactly zero is a factor, not "missing"
        # the market definition may carry no adjustment factor for a runner (late entry): its bets still stand and every
        # order after it in the blotter still gets the reduction
        own_missing = c.choose("own_adjustment_factor_missing", [False, True]) if b_kind.startswith("MOC-LAY") and mtype == "WIN" else False
        c.tag("own_factor_missing", own_missing)
        if b_kind == "LIMIT":
            B, db = ss.resting_limit(c, "b", fl, market, strategy, 101, selection_id=2, max_frags=max_frags + 1, allow_cancelled=False,
                                     persistence="LAPSE", status=OrderStatus.EXECUTABLE, price=3.0)
            before = [list(f) for f in B.simulated.matched]
        else:
            liab = c.pick("b_liability", LIABS)
            B = cm.mk_moc(strategy, "BACK" if b_kind.startswith("MOC-BACK") else "LAY", liab, selection_id=2)
            cm.place_resting(fl, market, strategy, B, 101)
            if b_kind == "MOC-BACK-matched":
                # a starting-price back bet already matched at the SP (removal declared in-play): its fill is reduced like any other
                sp = c.pick("b_sp", [1.5, 3.0, 11.0])
                B.simulated.matched = [[cm.T0_MS, sp, liab]]
                B.simulated.size_matched, B.simulated.average_price_matched = liab, sp
                B.simulated._bsp_reconciled = True
                before = [list(f) for f in B.simulated.matched]
            if b_kind == "MOC-LAY-matched":
                sp = c.pick("b_sp", [1.5, 3.0, 11.0])
                B.simulated.matched = [[cm.T0_MS, sp, 1.0]]
                B.simulated.size_matched, B.simulated.average_price_matched = 1.0, sp
                B.simulated._bsp_reconciled = True
        C = None
        if own_missing:
            C = cm.mk_limit(strategy, "BACK", 10.0, 2.0, selection_id=3)
            cm.place_resting(fl, market, strategy, C, 102, status=OrderStatus.EXECUTABLE)
            C.simulated.matched = [[cm.T0_MS, 10.0, 2.0]]
            C.simulated.size_matched, C.simulated.average_price_matched = 2.0, 10.0
            c_before = [list(x) for x in C.simulated.matched]
        f, fk = _af(c, "adjustment_factor")
        c.tag("factor", fk)
        bk2 = _removal_book(cm.MID, 8, cm.T0_MS + 1000, {1: f}, md)
        bk2.runners[1].adjustment_factor = None if own_missing else own_af
        with c.guard("removal-update"):
            market(bk2)
            mw(market)
            fl._process_simulated_orders(market)
        sa = A.simulated
        c.ob("removed.matched=0", c.And(sa.size_matched == 0, len(sa.matched) == 0))
        c.ob("removed.remaining=0", sa.size_remaining == 0)
        a_size = A.order_type.size if hasattr(A.order_type, "size") else A.order_type.liability
        c.ob("removed.voided=size", sa.size_voided == a_size)
        c.ob("removed.profit=0", A.simulated.profit == 0)
        c.observe("removed.remaining", sa.size_remaining)
        if a_state != "pending-placement":
            c.ob("removed.complete", A.complete is True)
            c.ob("removed.left-live-list", A not in market.blotter._live_orders)
        else:
            with c.guard("late-placement"):
                client.execution.handler(pkg)
                fl._process_simulated_orders(market)
            c.ob("removed.pending.complete-after-response", A.complete is True)
            c.ob("removed.pending.voided=size", c.And(sa.size_voided == a_size, sa.size_remaining == 0, sa.size_matched == 0))
            c.ob("removed.pending.left-live-list", A not in market.blotter._live_orders)
        c.cover("voided")
        applies = _applies(c, f, fk)

        def check_b(tag):
            if b_kind == "LIMIT":
                _frag_obligations(c, tag, before, B.simulated.matched, f, applies)
                if before:
                    c.cover("fragments")
            elif b_kind == "MOC-BACK-matched":
                c.ob("%s.moc-back-liability-unchanged" % tag, B.order_type.liability == liab)
                _frag_obligations(c, tag + ".moc-back", before, B.simulated.matched, f, applies)
                c.cover("moc-back-matched")
            elif b_kind == "MOC-BACK":
                c.ob("%s.moc-back-liability-unchanged" % tag, B.order_type.liability == liab)
            elif own_missing:
                _frag_obligations(c, tag + ".order-after-the-factorless-runner", c_before, C.simulated.matched, f, applies)
                c.cover("own-factor-missing")
            else:
                ff = 0 if f is None else f
                if mtype == "WIN":
                    mult = 1 - ff / (100 - own_af)
                elif mtype in ("PLACE", "OTHER_PLACE"):
                    mult = (100 - ff) / 100
                else:
                    mult = 1
                scaled = fk in ("sym", "just-under-threshold") and mtype in ("WIN", "PLACE", "OTHER_PLACE")
                c.ob("%s.moc-lay-liability-scaled" % tag, c.close(B.order_type.liability, liab * mult, 1e-9))
                c.observe("liability", B.order_type.liability)
                c.cover("moc-lay")
                if b_kind == "MOC-LAY-matched":
                    if scaled:
                        c.ob("%s.moc-lay-matched-rescaled" % tag, c.close(B.simulated.size_matched, liab * mult / (sp - 1), HALF))
                    else:
                        c.ob("%s.moc-lay-matched-unchanged" % tag, B.simulated.size_matched == 1.0)

        check_b("other")
        # exactly once: the same book again changes nothing
        with c.guard("second-call"):
            bk3 = _removal_book(cm.MID, 8, cm.T0_MS + 2000, {1: f}, md)
            bk3.runners[1].adjustment_factor = own_af
            market(bk3)
            mw(market)
            fl._process_simulated_orders(market)
        check_b("again")
        c.ob("again.removed.still-void", c.And(sa.size_matched == 0, sa.size_remaining == 0))


def h09b(c):
    """the same (selection, handicap, factor) removed in a second market of the same framework instance is applied there
    too; two removals in one market compose"""
    with cm.config_set(simulated=True):
        scenario = c.choose("scenario", ["second-market", "second-market-then-first-closes", "two-removals-successive", "two-removals-same-update",
                                          "removal-before-first-order"])
        if scenario == "removal-before-first-order":
            # the runner is already removed in books processed while the market has no orders; an order on another runner is
            # matched afterwards: its fill must not be reduced by that earlier removal (removals apply to bets matched before them)
            fl, (client,), (strategy,) = cm.new_sim()
            mw = fl._market_middleware[0]
            md = cm.market_definition(market_type="WIN")
            f, fk = _af(c, "adjustment_factor", kinds=("sym",))
            m = cm.add_market(fl, _removal_book(cm.MID, 7, cm.T0_MS, {1: f}, md))
            with c.guard("removal-with-empty-blotter"):
                mw(m)
                m(_removal_book(cm.MID, 7, cm.T0_MS + 500, {1: f}, md)); mw(m)
            B, _ = ss.resting_limit(c, "b", fl, m, strategy, 101, selection_id=2, max_frags=1, min_frags=1, allow_cancelled=False,
                                    status=OrderStatus.EXECUTABLE, side="BACK", persistence="LAPSE", price=3.0)
            before = [list(x) for x in B.simulated.matched]
            with c.guard("next-update"):
                m(_removal_book(cm.MID, 7, cm.T0_MS + 1000, {1: f}, md)); mw(m)
                fl._process_simulated_orders(m)
            for i, (b, a) in enumerate(zip(before, B.simulated.matched)):
                c.ob("later-fill.f%d.not-reduced-by-earlier-removal" % i, c.And(a[1] == b[1], a[2] == b[2]))
            c.cover("removal-before-first-order")
            c.cover("second-market"); c.cover("compose"); c.cover("other-market-closed")
            return
        c.tag("scenario", scenario)
        fl, (client,), (strategy,) = cm.new_sim()
        mw = fl._market_middleware[0]
        md = cm.market_definition(market_type="WIN")
        f, fk = _af(c, "adjustment_factor", kinds=("sym",))
        mids = [cm.MID, MID2] if scenario.startswith("second-market") else [cm.MID]
        markets, As, Bs, befores = [], [], [], []
        for k, mid in enumerate(mids):
            bk = cm.book([cm.runner(1), cm.runner(2), cm.runner(3)], market_id=mid, version=7, md=md)
            m = cm.add_market(fl, bk)
            mw(m)
            markets.append(m)
        # real orders (market id is part of the trade)
        for k, m in enumerate(markets):
            from flumine.order.trade import Trade
            ta = Trade(m.market_id, 1, 0, strategy)
            A, _ = ss.resting_limit(c, "m%da" % k, fl, m, strategy, 100 + 10 * k, selection_id=1, max_frags=0, trade=ta, status=OrderStatus.EXECUTABLE,
                                    side="BACK", persistence="LAPSE", price=3.0, allow_cancelled=False)
            tb = Trade(m.market_id, 2, 0, strategy)
            B, _ = ss.resting_limit(c, "m%db" % k, fl, m, strategy, 101 + 10 * k, selection_id=2, max_frags=1, min_frags=1, trade=tb, allow_cancelled=False,
                                    status=OrderStatus.EXECUTABLE, side="BACK", persistence="LAPSE", price=3.0)
            As.append(A); Bs.append(B); befores.append([list(x) for x in B.simulated.matched])
        if scenario.startswith("second-market"):
            for k, m in enumerate(markets):
                with c.guard("removal-market-%d" % k):
                    m(_removal_book(m.market_id, 8, cm.T0_MS + 1000 * (k + 1), {1: f}, md))
                    mw(m)
                    fl._process_simulated_orders(m)
                sa = As[k].simulated
                c.ob("market%d.removed.voided" % k, c.And(sa.size_matched == 0, sa.size_remaining == 0, sa.size_voided == As[k].order_type.size))
                c.ob("market%d.removed.complete" % k, As[k].complete is True)
                _frag_obligations(c, "market%d.other" % k, befores[k], Bs[k].simulated.matched, f, _applies(c, f, fk))
            c.cover("second-market")
            if scenario == "second-market-then-first-closes":
                # the first market closes (the simulation releases its middleware state) while the second stays open and
                # receives another update that still lists the removed runner: the removal must not be applied again
                with c.guard("close-first-market"):
                    fl._remove_market(markets[0], clear=False)
                    m = markets[1]
                    mid_state = [list(x) for x in Bs[1].simulated.matched]
                    m(_removal_book(m.market_id, 9, cm.T0_MS + 5000, {1: f}, md))
                    mw(m)
                    fl._process_simulated_orders(m)
                for i, (b, a) in enumerate(zip(mid_state, Bs[1].simulated.matched)):
                    c.ob("after-close.market1.f%d.unchanged" % i, c.And(a[1] == b[1], a[2] == b[2]))
                c.cover("other-market-closed")
        else:
            f2, fk2 = _af(c, "adjustment_factor2", kinds=("sym",))
            m = markets[0]
            with c.guard("removals"):
                if scenario == "two-removals-successive":
                    m(_removal_book(m.market_id, 8, cm.T0_MS + 1000, {1: f}, md)); mw(m)
                    m(_removal_book(m.market_id, 9, cm.T0_MS + 2000, {1: f, 3: f2}, md)); mw(m)
                else:
                    m(_removal_book(m.market_id, 8, cm.T0_MS + 1000, {1: f, 3: f2}, md)); mw(m)
                fl._process_simulated_orders(m)
            after = Bs[0].simulated.matched
            for i, (b, a) in enumerate(zip(befores[0], after)):
                # composition: reduce by f (if >= 2.5) then by f2 (if >= 2.5), each to the cent and floored at 1.01
                a1 = c.ite(f >= 2.5, c.smax(b[1] * (1 - f / 100), 1.01), b[1])
                exact2 = a1 * (1 - f2 / 100)
                lo = c.ite(f2 >= 2.5, c.smax(exact2, 1.01), a1)
                # two roundings: half a cent each (the first one is scaled by (1 - f2/100) <= 1)
                c.ob("compose.f%d.price" % i, c.close(a[1], lo, 2 * HALF))
                c.ob("compose.f%d.floor" % i, a[1] >= 1.01)
            if befores[0]:
                c.cover("compose")


HARNESSES = [
    Harness("H09a", h09a, quick=dict(max_frags=1), thorough=dict(max_frags=2), pattern="P2 inductive step + second call",
            requires=["voided", "fragments", "moc-lay", "moc-back-matched", "own-factor-missing"], wall_s=(300, 3000), max_paths=(200000, 3000000),
            outside=["more than 2 fragments per order", "SP lay bets with a maximum odds limit (LIMIT_ON_CLOSE) on other runners: flumine documents this as TODO"]),
    Harness("H09b", h09b, pattern="P3 short history", requires=["second-market", "compose", "other-market-closed", "removal-before-first-order"], wall_s=(300, 3000), max_paths=(200000, 3000000),
            outside=["more than 2 markets / 2 removals"]),
]
META = {"assumptions": ["adjustment factor ranges over None, 0 and every 2dp value in (0, 99]; fragment prices over a finite set (products stay linear)"]}
