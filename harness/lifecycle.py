"""shared machinery for the lifecycle properties (C02 C03 C10 C11 C12 C15 C18): status recorder, exchange double,
handler worlds (simulation and live) and the obligation sets derived from one handler step"""
import contextlib
import datetime as _dt

from betfairlightweight import BetfairError
from flumine.order.order import BaseOrder, OrderStatus, LIVE_STATUS, COMPLETE_STATUS
from flumine.order.trade import Trade, TradeStatus
from flumine.order.orderpackage import OrderPackageType
from . import common as cm
from . import simstate as ss

S = OrderStatus
TRANSIENT = {OrderPackageType.PLACE: S.PENDING, OrderPackageType.CANCEL: S.CANCELLING, OrderPackageType.UPDATE: S.UPDATING,
             OrderPackageType.REPLACE: S.REPLACING}
# documented lifecycle: pending -> executable | complete; executable -> cancelling/updating/replacing and back, or complete
ALLOWED = {
    None: {S.PENDING, S.VIOLATION},
    S.PENDING: {S.PENDING, S.EXECUTABLE, S.EXECUTION_COMPLETE},
    S.EXECUTABLE: {S.EXECUTABLE, S.CANCELLING, S.UPDATING, S.REPLACING, S.EXECUTION_COMPLETE},
    S.CANCELLING: {S.EXECUTABLE, S.EXECUTION_COMPLETE},
    S.UPDATING: {S.EXECUTABLE, S.EXECUTION_COMPLETE},
    S.REPLACING: {S.EXECUTABLE, S.EXECUTION_COMPLETE},
    S.EXECUTION_COMPLETE: {S.EXECUTION_COMPLETE},
    S.EXPIRED: set(),
    S.VIOLATION: set(),
}


class Recorder:
    """records every BaseOrder._update_status / Trade._update_status call made by the real code (wrapper installed in
    the checker process only)"""

    def __init__(self):
        self.orders = []  # (order, old, new, caller)
        self.trades = []  # (trade, old, new)
        self.completed = []  # (order, size_matched when it was reported complete)
        self.probe = None  # optional callable(order) evaluated at the write that reports an order complete
        self.probed = []  # (order, probe value)

    def __enter__(self):
        import sys
        rec = self
        self._o = BaseOrder._update_status
        self._t = Trade._update_status

        def o_upd(self_, status):
            f = sys._getframe(2)
            rec.orders.append((self_, self_.status, status, "%s:%s" % (f.f_code.co_filename.rsplit("/", 1)[-1], f.f_code.co_name)))
            if status == S.EXECUTION_COMPLETE and not any(o is self_ for o, _ in rec.completed):
                rec.completed.append((self_, self_.size_matched))
                if rec.probe is not None:
                    rec.probed.append((self_, rec.probe(self_)))
            return rec._o(self_, status)

        def t_upd(self_, status):
            rec.trades.append((self_, self_.status, status))
            return rec._t(self_, status)

        BaseOrder._update_status = o_upd
        Trade._update_status = t_upd
        return self

    def __exit__(self, *a):
        BaseOrder._update_status = self._o
        Trade._update_status = self._t

    def of(self, order):
        return [(old, new, who) for (o, old, new, who) in self.orders if o is order]


def transition_obligations(c, rec, orders, was_complete=None, tag="order"):
    """C03: every recorded transition is in the documented relation; once complete never live again"""
    for i, o in enumerate(orders):
        done = bool(was_complete and was_complete.get(o))
        for k, (old, new, who) in enumerate(rec.of(o)):
            ok = new in ALLOWED.get(old, set())
            c.ob("%s%d.transition-legal" % (tag, i), ok, transition="%s->%s" % (getattr(old, "name", old), new.name), writer=who)
            if done:
                c.ob("%s%d.complete-is-final" % (tag, i), new not in LIVE_STATUS, transition="%s->%s" % (getattr(old, "name", old), new.name), writer=who)
            if new == S.EXECUTION_COMPLETE:
                done = True


# ---------------------------------------------------------------------------------------------------------------
# exchange double (live mode)
# ---------------------------------------------------------------------------------------------------------------
class Rep(cm.NS):
    pass


class ExchangeDouble:
    """stands for betting_client.betting: returns scripted instruction reports / raises on scripted attempts"""

    def __init__(self):
        self.calls = []  # (kind, instructions)
        self.script = {}  # kind -> callable(instructions, attempt) -> response or raises
        self.attempts = {"place": 0, "cancel": 0, "update": 0, "replace": 0}

    def _do(self, kind, instructions, **kw):
        self.attempts[kind] += 1
        self.calls.append((kind, list(instructions), kw))
        return self.script[kind](list(instructions), self.attempts[kind])

    def place_orders(self, market_id, instructions, **kw):
        return self._do("place", instructions, **kw)

    def cancel_orders(self, market_id, instructions, **kw):
        return self._do("cancel", instructions, **kw)

    def update_orders(self, market_id, instructions, **kw):
        return self._do("update", instructions, **kw)

    def replace_orders(self, market_id, instructions, **kw):
        return self._do("replace", instructions, **kw)


def response(**kw):
    return Rep(elapsed_time=0.01, _data={}, **kw)


NOW = cm.core._EPOCH + _dt.timedelta(milliseconds=cm.T0_MS + 5000)


def place_report(status, order_status=None, bet_id=None, error_code=None, size_matched=0.0, average_price_matched=0.0, instruction=None):
    return Rep(status=status, order_status=order_status, bet_id=bet_id, error_code=error_code, size_matched=size_matched,
               average_price_matched=average_price_matched, placed_date=NOW, instruction=instruction)


def cancel_report(status, bet_id, error_code=None, size_cancelled=0.0):
    return Rep(status=status, error_code=error_code, size_cancelled=size_cancelled, cancelled_date=NOW, instruction=Rep(bet_id=bet_id))


def update_report(status, error_code=None):
    return Rep(status=status, error_code=error_code)


ERROR_CODES = ["BET_TAKEN_OR_LAPSED", "ERROR_IN_ORDER", "MARKET_SUSPENDED"]


def stream_complete(fl, client, order, status="EXECUTION_COMPLETE", size_matched=None):
    """the order stream reports the bet complete (matched / lapsed at the exchange) - real process_current_orders"""
    size = order.order_type.size if hasattr(order.order_type, "size") else order.order_type.liability
    m = size if size_matched is None else size_matched
    co = cm.current_order(order.customer_order_ref, order.bet_id, side=order.side, price=getattr(order.order_type, "price", 2.0) or 2.0, size=size,
                          status=status, size_matched=m, size_remaining=0.0, average_price_matched=2.0 if m else 0.0,
                          size_lapsed=size - m)
    fl._process_current_orders(cm.current_orders_event(client, [co]))
    return co


def recount_runner_context(c, strategy, market, tag="ctx"):
    """C10: live trades charged == placed trades with an order not yet complete; trades == distinct trades placed"""
    per = {}
    for o in market.blotter:
        if o.trade.strategy is not strategy or o.status == S.VIOLATION:
            continue
        key = o.lookup
        d = per.setdefault(key, {"trades": [], "live": []})
        if o.trade.id not in d["trades"]:
            d["trades"].append(o.trade.id)
    for o in market.blotter:
        if o.trade.strategy is not strategy or o.status == S.VIOLATION:
            continue
        d = per[o.lookup]
        if not o.complete and o.trade.id not in d["live"]:
            d["live"].append(o.trade.id)
    for key, d in per.items():
        rc = strategy.get_runner_context(*key)
        c.ob("%s.live-trades=recount" % tag, sorted(rc.live_trades) == sorted(d["live"]), charged=len(rc.live_trades), recount=len(d["live"]))
        c.ob("%s.trades=recount" % tag, sorted(rc.trades) == sorted(d["trades"]))
    for t in market.blotter._trades:
        if t.strategy is not strategy or t.pending_orders:
            continue
        all_done = all(o.complete for o in t.orders)
        placed = [o for o in t.orders if o.id in market.blotter]
        if not placed:
            continue
        c.ob("%s.trade-complete<=>orders-complete" % tag, (t.status == TradeStatus.COMPLETE) == all_done, trade_status=t.status.name, all_done=all_done)
        c.ob("%s.trade-not-left-pending" % tag, t.status != TradeStatus.PENDING)
        n_complete = len([s for s in t.status_log if s == TradeStatus.COMPLETE])
        # once per completion: a trade can only complete again after a further order has been placed in it
        c.ob("%s.trade-completes-at-most-once" % tag, n_complete <= max(1, len(placed)), completions=n_complete, placed=len(placed))


def views_sig(b):
    """every internal index of a blotter as comparable data (object identities, order preserved)"""
    def ids(d):
        return sorted((repr(k) if not isinstance(k, tuple) else repr(tuple(repr(x) for x in k)), [id(o) for o in v]) for k, v in list(d.items()) if v)
    return dict(orders=sorted(b._orders), live=[id(o) for o in b._live_orders], strategy=ids(b._strategy_orders),
                strategy_selection=ids(b._strategy_selection_orders), client=ids(b._client_orders), client_strategy=ids(b._client_strategy_orders),
                trades=ids(b._trades), bet_ids=sorted((str(k), id(v)) for k, v in b._bet_id_lookup.items()), trade_lookup=sorted(b._trade_lookup))


def blotter_coherence(c, market, placed, tag="blotter"):
    """C15: every placed order exactly once in the blotter and in every view; live list = orders not complete (+ complete
    ones not yet swept)"""
    b = market.blotter
    ids = [o.id for o in placed]
    c.ob("%s.orders-once" % tag, sorted(b._orders.keys()) == sorted(ids) and len(set(ids)) == len(ids))
    # every entry of every view is the order registered under its id (no stale or cloned object survives in a view)
    for vname, view in (("strategy", b._strategy_orders), ("strategy-selection", b._strategy_selection_orders), ("client", b._client_orders),
                        ("client-strategy", b._client_strategy_orders), ("trade", b._trades)):
        for lst in list(view.values()):
            for x in lst:
                c.ob("%s.%s-view-entry-is-the-registered-order" % (tag, vname), b._orders.get(x.id) is x)
    for x in b._live_orders:
        c.ob("%s.live-list-entry-is-the-registered-order" % tag, b._orders.get(x.id) is x)
    for o in placed:
        st = o.trade.strategy
        c.ob("%s.lookup-identity" % tag, b[o.id] is o)
        c.ob("%s.strategy-view-once" % tag, len([x for x in b._strategy_orders[st] if x is o]) == 1)
        c.ob("%s.strategy-selection-view-once" % tag, len([x for x in b._strategy_selection_orders[(st, o.selection_id, o.handicap)] if x is o]) == 1)
        c.ob("%s.client-view-once" % tag, len([x for x in b._client_orders[o.client] if x is o]) == 1)
        c.ob("%s.client-strategy-view-once" % tag, len([x for x in b._client_strategy_orders[(o.client, st)] if x is o]) == 1)
        c.ob("%s.trade-view-once" % tag, len([x for x in b._trades[o.trade] if x is o]) == 1)
        c.ob("%s.live-list-at-most-once" % tag, len([x for x in b._live_orders if x is o]) <= 1)
        if not o.complete:
            c.ob("%s.incomplete-order-in-live-list" % tag, any(x is o for x in b._live_orders), status=o.status.name if o.status else None)
        if o.bet_id is not None and b._bet_id_lookup.get(o.bet_id) is not None:
            c.ob("%s.bet-id-lookup-identity" % tag, b._bet_id_lookup.get(o.bet_id) is o or any(p.bet_id == o.bet_id and p is not o for p in placed))


# ---------------------------------------------------------------------------------------------------------------
# live handler step: one package through the real BetfairExecution against the exchange double
# ---------------------------------------------------------------------------------------------------------------
def live_resting(fl, market, strategy, client, bet_id, size, matched=0.0, side="BACK", price=2.0, selection_id=1, trade=None):
    o = cm.mk_limit(strategy, side, price, size, selection_id=selection_id, trade=trade)
    o.update_client(client)
    o.bet_id = str(bet_id)
    o.responses.placed(place_report("SUCCESS", "EXECUTABLE", str(bet_id)))
    o.responses.current_order = cm.current_order(o.customer_order_ref, str(bet_id), side=side, price=price, size=size, size_matched=matched,
                                                 size_remaining=size - matched, average_price_matched=price if matched else 0.0)
    market.blotter[o.id] = o
    o.status = S.EXECUTABLE
    o.status_log.append(S.EXECUTABLE)
    rc = strategy.get_runner_context(*o.lookup)
    rc.place(o.trade.id)
    return o


KINDS = [OrderPackageType.PLACE, OrderPackageType.CANCEL, OrderPackageType.UPDATE, OrderPackageType.REPLACE]


def live_handler_step(c, kind, n=1, allow_meanwhile=True, allow_errors=True, allow_misorder=True):
    """n orders, one request of `kind` through market.*_order -> Transaction -> BetfairExecution -> exchange double with a
    symbolic outcome per instruction, a symbolic failing attempt, and (symbolically) the order stream completing some
    order before the response is delivered.  Returns the world for the obligation sets."""
    ex = ExchangeDouble()
    # (what is counted does not depend on whether the client has a limit configured)
    fl, client, (strategy,) = cm.new_live(exchange=ex, client_kwargs=dict(transaction_limit=c.choose("transaction_limit", [5000, None])))
    bk = cm.book([cm.runner(1), cm.runner(2)], version=7)
    market = fl._add_market(cm.MID, bk)
    name = {OrderPackageType.PLACE: "place", OrderPackageType.CANCEL: "cancel", OrderPackageType.UPDATE: "update", OrderPackageType.REPLACE: "replace"}[kind]
    orders = []
    sizes = []
    for i in range(n):
        size = 10.0
        if kind == OrderPackageType.PLACE:
            o = cm.mk_limit(strategy, "BACK", 2.0, size)
        else:
            o = live_resting(fl, market, strategy, client, 500 + i, size, matched=c.choose("o%d_matched" % i, [0.0, 4.0]))
        orders.append(o)
        sizes.append(size)
    fail_until = c.choose("api_error_on_attempts", [0, 1, 2, 3, 4]) if allow_errors else 0  # attempts 1..k raise BetfairError
    err_kind = c.choose("error_kind", ["BetfairError", "Exception"]) if fail_until else None
    # the order stream may report an order complete while the request is in flight: after the request reached the exchange (True) or - for a
    # replace - already before the worker thread builds the instructions ("before-send": thread-pool latency)
    meanwhile = [c.choose("o%d_completes_meanwhile" % i, [False, True] + (["before-send"] if kind == OrderPackageType.REPLACE and n > 1 else []))
                 if (allow_meanwhile and kind != OrderPackageType.PLACE) else False for i in range(n)]
    if kind == OrderPackageType.PLACE and allow_meanwhile:
        meanwhile = [c.choose("o%d_stream_first" % i, [False, True]) for i in range(n)]
    outcomes = []
    for i in range(n):
        st = c.choose("o%d_status" % i, ["SUCCESS", "FAILURE", "TIMEOUT"])
        oc = dict(status=st)
        if kind == OrderPackageType.PLACE:
            oc["order_status"] = c.choose("o%d_order_status" % i, ["EXECUTABLE", "EXECUTION_COMPLETE", "PENDING", "EXPIRED"]) if st == "SUCCESS" else None
        elif kind == OrderPackageType.CANCEL:
            if st == "SUCCESS":
                oc["full"] = c.choose("o%d_cancel_full" % i, [True, False])
            if st == "FAILURE":
                oc["error_code"] = c.choose("o%d_error" % i, ["BET_TAKEN_OR_LAPSED", "ERROR_IN_ORDER"])
        elif kind == OrderPackageType.REPLACE:
            oc["place_status"] = c.choose("o%d_place_status" % i, ["SUCCESS", "FAILURE", "TIMEOUT"]) if st == "SUCCESS" else c.choose("o%d_place_status" % i, ["FAILURE", "TIMEOUT"])
        outcomes.append(oc)
    no_reports = c.choose("place_request_rejected_without_reports", [False, True]) if (kind == OrderPackageType.PLACE and allow_errors) else False
    c.tag("no_reports", no_reports)
    misorder = c.choose("cancel_reports", ["in-order", "reversed", "last-missing"]) if (kind == OrderPackageType.CANCEL and n > 1 and allow_misorder) else "in-order"
    c.tag("kind", kind.name)
    c.tag("meanwhile", "/".join(str(m) for m in meanwhile))
    c.tag("api_error", fail_until)
    c.tag("error_kind", err_kind)
    c.tag("outcomes", "/".join(o["status"] + ("+" + o["place_status"] if "place_status" in o else "") for o in outcomes))
    state = {"answered": 0, "instr_seen": [], "delivered": False}

    def _probe():
        # a strategy tries a further request while this one (or its retry) is still in flight: must be rejected
        from flumine.exceptions import OrderUpdateError
        for i, o in enumerate(orders):
            before = (o.status, len(o.status_log))
            try:
                market.cancel_order(o, force=True)
                state.setdefault("probe", []).append((i, "accepted", before))
            except OrderUpdateError:
                state.setdefault("probe", []).append((i, "rejected", before, (o.status, len(o.status_log))))

    def script(instructions, attempt):
        if attempt > 1:
            _probe()
        if attempt <= fail_until:
            if err_kind == "BetfairError":
                raise BetfairError("scripted")
            raise RuntimeError("scripted")
        state["answered"] += 1
        state["instr_seen"].append(list(instructions))
        # the order stream may beat the response
        for i, o in enumerate(orders):
            if meanwhile[i] is True:
                if kind == OrderPackageType.PLACE:
                    if outcomes[i]["status"] == "SUCCESS":
                        o_bet = str(700 + i)
                        co = cm.current_order(o.customer_order_ref, o_bet, size=sizes[i], status="EXECUTION_COMPLETE" if outcomes[i]["order_status"] in ("EXECUTION_COMPLETE", "EXPIRED") else "EXECUTABLE",
                                              size_matched=sizes[i] if outcomes[i]["order_status"] == "EXECUTION_COMPLETE" else 0.0,
                                              size_remaining=0.0 if outcomes[i]["order_status"] in ("EXECUTION_COMPLETE", "EXPIRED") else sizes[i])
                        fl._process_current_orders(cm.current_orders_event(client, [co]))
                else:
                    stream_complete(fl, client, o)
        _probe()
        reps = []
        for i, o in enumerate(orders):
            oc = outcomes[i]
            if kind == OrderPackageType.REPLACE and not any(ins.get("betId") == o.bet_id for ins in instructions):
                continue  # the exchange answers the instructions it received
            state.setdefault("reported", []).append(oc)
            if kind == OrderPackageType.PLACE:
                reps.append(place_report(oc["status"], oc["order_status"], str(700 + i) if oc["status"] == "SUCCESS" else None,
                                         None if oc["status"] == "SUCCESS" else "ERROR_IN_ORDER",
                                         size_matched=sizes[i] if oc.get("order_status") == "EXECUTION_COMPLETE" else 0.0))
            elif kind == OrderPackageType.CANCEL:
                rem = o.size_remaining
                reps.append(cancel_report(oc["status"], o.bet_id, oc.get("error_code"), size_cancelled=(rem if oc.get("full") else 1.0) if oc["status"] == "SUCCESS" else 0.0))
            elif kind == OrderPackageType.UPDATE:
                reps.append(update_report(oc["status"], None if oc["status"] == "SUCCESS" else "ERROR_IN_ORDER"))
            else:
                reps.append(Rep(status=oc["status"], cancel_instruction_reports=cancel_report(oc["status"], o.bet_id, None if oc["status"] == "SUCCESS" else "ERROR_IN_ORDER",
                                                                                              size_cancelled=o.size_remaining if oc["status"] == "SUCCESS" else 0.0),
                                place_instruction_reports=place_report(oc["place_status"], "EXECUTABLE" if oc["place_status"] == "SUCCESS" else None,
                                                                       str(800 + i) if oc["place_status"] == "SUCCESS" else None,
                                                                       None if oc["place_status"] == "SUCCESS" else "ERROR_IN_ORDER",
                                                                       instruction=Rep(limit_order=Rep(price=3.0, size=sizes[i])))))
        if no_reports:
            reps = []  # the whole request is rejected (e.g. INSUFFICIENT_FUNDS): status FAILURE and no instruction reports
        if kind == OrderPackageType.CANCEL:
            if misorder == "reversed":
                reps = list(reversed(reps))
            elif misorder == "last-missing":
                reps = reps[:-1]
        key = {"place": "place_instruction_reports", "cancel": "cancel_instruction_reports", "update": "update_instruction_reports", "replace": "replace_instruction_reports"}[name]
        return response(**{key: reps})

    ex.script[name] = script
    rec = Recorder()
    with rec:
        with c.guard("request+response"):
            with market.transaction() as t:
                for i, o in enumerate(orders):
                    if kind == OrderPackageType.PLACE:
                        t.place_order(o, force=True)
                    elif kind == OrderPackageType.CANCEL:
                        t.cancel_order(o, force=True)
                    elif kind == OrderPackageType.UPDATE:
                        t.update_order(o, "PERSIST", force=True)
                    else:
                        t.replace_order(o, 3.0, force=True)
                # the order stream completes an order after the request was made but before the package is sent
                for i, o in enumerate(orders):
                    if meanwhile[i] == "before-send":
                        stream_complete(fl, client, o)
    return dict(fl=fl, client=client, strategy=strategy, market=market, orders=orders, rec=rec, ex=ex, kind=kind, name=name, no_reports=no_reports,
                outcomes=outcomes, meanwhile=meanwhile, fail_until=fail_until, err_kind=err_kind, state=state, misorder=misorder, sizes=sizes)


def c12_obligations(c, w):
    """every order of the request ends in a state from which it can progress; counts; bounded retries; alignment"""
    kind, orders, outcomes = w["kind"], w["orders"], w["outcomes"]
    answered = w["state"]["answered"] > 0
    n = len(orders)
    for i, o in enumerate(orders):
        oc = outcomes[i]
        if w.get("no_reports"):
            # a request rejected as a whole carries no per-instruction information: what becomes of the orders is outside the
            # claim (flumine leaves them PENDING); only the transaction count is checked for this outcome
            continue
        may_pending = kind == OrderPackageType.PLACE and answered and (oc["status"] == "TIMEOUT" or (oc["status"] == "SUCCESS" and oc.get("order_status") == "PENDING"))
        # an unknown exception (not a BetfairError) aborts the call without any information about the bets: PENDING may remain
        may_pending = may_pending or (kind == OrderPackageType.PLACE and not answered and w["err_kind"] == "Exception")
        ok = o.status in (S.EXECUTABLE, S.EXECUTION_COMPLETE) or (may_pending and o.status == S.PENDING)
        c.ob("order%d.ends-progressable" % i, ok, status=o.status.name if o.status else None)
        c.ob("order%d.not-left-transient" % i, o.status not in (S.CANCELLING, S.UPDATING, S.REPLACING), status=o.status.name if o.status else None)
        c.ob("order%d.trade-not-pending" % i, o.trade.status != TradeStatus.PENDING)
    c.ob("calls<=1+max-retries", len(w["ex"].calls) <= 4, calls=len(w["ex"].calls))
    # transaction counts
    exp_bets, exp_failed = 0, 0
    if answered:
        sent = len(w["state"]["instr_seen"][0])
        if kind in (OrderPackageType.PLACE, OrderPackageType.REPLACE):
            exp_bets = sent
        if kind in (OrderPackageType.CANCEL, OrderPackageType.UPDATE, OrderPackageType.REPLACE):
            delivered = outcomes if w["misorder"] != "last-missing" else outcomes[:-1]
            if kind == OrderPackageType.REPLACE:
                delivered = w["state"].get("reported", [])
            exp_failed = len([oc for oc in delivered if oc["status"] == "FAILURE"])
    ctl = [x for x in w["client"].trading_controls if x.NAME == "MAX_TRANSACTION_COUNT"][0]
    c.ob("txn-count.bets", ctl.transaction_count == exp_bets, counted=ctl.transaction_count, expected=exp_bets)
    c.ob("txn-count.failed", ctl.failed_transaction_count == exp_failed, counted=ctl.failed_transaction_count, expected=exp_failed)
    c.ob("txn-count.hourly=total", w["client"].current_transaction_count_total == w["client"].transaction_count_total)
    # alignment: each report is applied to the order it belongs to
    if answered and not w.get("no_reports"):
        for i, o in enumerate(orders):
            oc = outcomes[i]
            if kind == OrderPackageType.PLACE and oc["status"] == "SUCCESS":
                c.ob("order%d.bet-id-from-own-report" % i, o.bet_id == str(700 + i), bet_id=o.bet_id)
            if kind == OrderPackageType.CANCEL and w["misorder"] != "last-missing" or (kind == OrderPackageType.CANCEL and i < n - 1):
                if oc["status"] == "SUCCESS" and not w["meanwhile"][i] and o.responses.cancel_responses:
                    c.ob("order%d.cancel-report-own-bet" % i, o.responses.cancel_responses[-1].instruction.bet_id == o.bet_id)
            if kind == OrderPackageType.REPLACE and oc["status"] == "SUCCESS" and oc["place_status"] == "SUCCESS" and not w["meanwhile"][i]:
                repl = [x for x in w["market"].blotter if x.bet_id == str(800 + i)]
                c.ob("order%d.replacement-in-own-trade" % i, len(repl) == 1 and repl[0].trade is o.trade and o.status == S.EXECUTION_COMPLETE)
