"""C01 Exposure limits bound every order that reaches the exchange"""
from symx.run import Harness
from flumine.order.order import OrderStatus
from flumine.order.orderpackage import OrderPackageType
from . import common as cm
from . import position as pos

TOL = 0.01  # get_exposures rounds the matched and the unmatched component to the cent separately
ACKED = [OrderStatus.EXECUTABLE, OrderStatus.CANCELLING, OrderStatus.UPDATING, OrderStatus.REPLACING,
         OrderStatus.EXECUTION_COMPLETE, OrderStatus.VIOLATION]  # acknowledgement discipline: nothing PENDING


def _limit(c, name, present):
    return c.cents(name, 0, 5000000) if present else None


def _world(c, limits):
    mo, ms, mm = limits
    fl, (client,), (strategy,) = cm.new_sim(strategy_kwargs=dict(max_order_exposure=mo, max_selection_exposure=ms, max_market_exposure=mm))
    bk = cm.book([cm.runner(1), cm.runner(2), cm.runner(3)])
    market = cm.add_market(fl, bk)
    return fl, client, strategy, market, bk


def _order_exposure(d):
    if d["kind"] == "LIMIT":
        return d["size"] if d["side"] == "BACK" else (d["price"] - 1) * d["size"]
    if d["kind"] == "LINE":
        return d["size"]
    return d["liability"]


def _sent(fl, order):
    return [p for p in fl.handler_queue if order in p._orders]


def _loss(c, wl):
    return c.smax(-c.smin(wl[0], wl[1]), 0)


def h01a(c, n=1, mode="S", market_limit=False, others=0, winners=(1, 2), sel_limit_too=True):
    """Market.place_order through the real default controls: accepted => the limits hold for the oracle worst case
    counting the order in full; refused => VIOLATION, nothing sent, not in the blotter"""
    with cm.config_set(simulated=True):
        has_mo = c.choose("max_order_set", [True, False]) if not market_limit else False
        has_ms = c.choose("max_selection_set", [True, False]) if (sel_limit_too or not market_limit) else False
        has_mm = market_limit
        mkinds = ["LIMIT", "MOC"] if market_limit else pos.KINDS
        mo, ms, mm = _limit(c, "max_order", has_mo), _limit(c, "max_selection", has_ms), _limit(c, "max_market", has_mm)
        fl, client, strategy, market, bk = _world(c, (mo, ms, mm))
        per_sel = {1: []}
        k = 0
        for i in range(n):
            o, d = pos.mk_position_order(c, "p%d" % i, strategy, mode, statuses=ACKED, kinds=mkinds, part_cancel=not market_limit,
                                         msplits=("none", "part") if market_limit else ("none", "part", "all"))
            pos.install(fl, market, strategy, o, d, 100 + k); k += 1
            per_sel[1].append(d)
        for j in range(others):
            o, d = pos.mk_position_order(c, "q%d" % j, strategy, mode, selection_id=2 + j, statuses=[OrderStatus.EXECUTABLE, OrderStatus.EXECUTION_COMPLETE],
                                         kinds=["LIMIT", "MOC"], msplits=("none", "part"), part_cancel=False)
            pos.install(fl, market, strategy, o, d, 100 + k); k += 1
            per_sel[2 + j] = [d]
        # Inv(pre): the position is within the configured limits before the request (DESIGN 4 C01)
        pre = {s: pos.worst_case(c, ds) for s, ds in per_sel.items()}
        if ms is not None:
            c.assume(_loss(c, pre[1]) <= ms)
        if market_limit:
            W = c.choose("number_of_winners", list(winners))
            R = c.choose("number_of_active_runners", [len(per_sel), len(per_sel) + 2])
            bk.number_of_winners, bk.number_of_active_runners = W, R
            pre_m = -pos.market_worst(c, [pre[s] for s in sorted(pre)], W, R)
            c.assume(pre_m <= mm)
        new_sel = c.choose("new_selection", [1, 2 + others]) if market_limit else 1
        no, nd = pos.mk_position_order(c, "new", strategy, mode, selection_id=new_sel, new=True, kinds=mkinds)
        if nd["kind"] == "LINE":
            no.order_type.line_range_info = cm.NS(min_unit_value=0.5, max_unit_value=10.5, interval=1.0)
        c.tag("kind", nd["kind"]); c.tag("side", nd["side"])
        with c.guard("place_order"):
            accepted = market.place_order(no)
        sent = _sent(fl, no)
        c.observe("accepted", accepted)
        c.observe("status", no.status.value)
        if accepted:
            c.cover("accepted")
            c.ob("accepted.sent-once", len(sent) == 1 and sent[0].package_type == OrderPackageType.PLACE)
            c.ob("accepted.pending", no.status == OrderStatus.PENDING)
            if mo is not None:
                c.ob("accepted.order-limit", _order_exposure(nd) <= mo)
            per_sel.setdefault(new_sel, [])
            post_ds = dict(per_sel)
            post_ds[new_sel] = per_sel[new_sel] + [dict(nd, status=OrderStatus.EXECUTABLE)]
            post = {s: pos.worst_case(c, ds) for s, ds in post_ds.items()}
            if ms is not None and new_sel == 1:
                c.ob("accepted.selection-limit", _loss(c, post[1]) <= ms + TOL)
            if ms is not None and new_sel != 1:
                c.ob("accepted.selection-limit", _loss(c, post[new_sel]) <= ms + TOL)
            if market_limit:
                post_m = -pos.market_worst(c, [post[s] for s in sorted(post)], W, max(R, len(post)))
                c.ob("accepted.market-limit", post_m <= mm + TOL * len(post))
        else:
            c.cover("refused")
            c.ob("refused.violation", no.status == OrderStatus.VIOLATION)
            c.ob("refused.not-sent", len(sent) == 0)
            c.ob("refused.not-in-blotter", no.id not in market.blotter)


def h01r(c, n=1, mode="S"):
    """Market.replace_order through the real default controls: accepted => the limits hold for the position with the
    replaced order re-priced (its remaining size at the new price)"""
    with cm.config_set(simulated=True):
        has_mo = c.choose("max_order_set", [True, False])
        has_ms = c.choose("max_selection_set", [True, False])
        mo, ms = _limit(c, "max_order", has_mo), _limit(c, "max_selection", has_ms)
        fl, client, strategy, market, bk = _world(c, (mo, ms, None))
        ro, rd = pos.mk_position_order(c, "r", strategy, mode, statuses=[OrderStatus.EXECUTABLE], kinds=["LIMIT"], msplits=("none", "part"))
        pos.install(fl, market, strategy, ro, rd, 100)
        ro.status = OrderStatus.EXECUTABLE
        ro.complete = False
        rd["status"], rd["complete"] = OrderStatus.EXECUTABLE, False
        ds = [rd]
        for i in range(n - 1):
            o, d = pos.mk_position_order(c, "p%d" % i, strategy, mode, statuses=ACKED)
            pos.install(fl, market, strategy, o, d, 101 + i)
            ds.append(d)
        pre = pos.worst_case(c, ds)
        if ms is not None:
            c.assume(_loss(c, pre) <= ms)
        if mo is not None:
            c.assume(_order_exposure(rd) <= mo)
        new_price = pos.sym_price(c, "new_price", mode)
        c.assume(new_price != rd["price"])  # an unchanged price is rejected by the order's own guard (C03)
        c.tag("side", rd["side"])
        c.tag("direction", "worse" if c.is_true((new_price > rd["price"]) if rd["side"] == "LAY" else (new_price < rd["price"])) else "better")
        with c.guard("replace_order"):
            accepted = market.replace_order(ro, new_price)
        sent = _sent(fl, ro)
        c.observe("accepted", accepted)
        if accepted:
            c.cover("accepted")
            c.ob("accepted.sent-once", len(sent) == 1 and sent[0].package_type == OrderPackageType.REPLACE)
            # after the replace: the matched part of the old bet stays, its remainder is re-offered at the new price
            old_done = dict(rd, status=OrderStatus.EXECUTION_COMPLETE, complete=True)
            repl = dict(kind="LIMIT", side=rd["side"], size=rd["remaining"], price=new_price, status=OrderStatus.EXECUTABLE,
                        complete=False, matched=0, avg=0, remaining=rd["remaining"], has_matched=False)
            post = pos.worst_case(c, [old_done, repl] + ds[1:])
            if mo is not None:
                c.ob("accepted.order-limit", _order_exposure(repl) <= mo)
            if ms is not None:
                c.ob("accepted.selection-limit", _loss(c, post) <= ms + TOL)
        else:
            c.cover("refused")
            c.ob("refused.not-sent", len(sent) == 0)


def _order_loss(c, o, size_key="size"):
    """worst-case loss of one real simulated order from its fragments, remainder and SP liability (exchange rules)"""
    sim = o.simulated
    win = lose = 0
    for (_, p, s) in sim.matched:
        if o.side == "BACK":
            win, lose = win + (p - 1) * s, lose - s
        else:
            win, lose = win - (p - 1) * s, lose + s
    kind = o.order_type.ORDER_TYPE.name
    if kind == "LIMIT":
        if not o.complete:
            r = sim.size_remaining
            p = o.order_type.price
            if o.side == "BACK":
                lose = lose - r
            else:
                win = win - (p - 1) * r
    elif not sim.matched:
        # an SP order not yet reconciled risks its liability
        if o.side == "BACK":
            lose = lose - o.order_type.liability
        else:
            win = win - o.order_type.liability
    return c.smax(-c.smin(win, lose), 0)


def h01b(c):
    """later history cannot raise the loss: one real simulated event (passive fill, suspension lapse, SP reconciliation, cancel,
    removal of another runner) on an acknowledged order in an arbitrary state: the order's worst-case loss afterwards is not
    above the one before (that was counted when the order was accepted)"""
    from . import simstate as ss
    from flumine.order.orderpackage import OrderPackageType
    with cm.config_set(simulated=True):
        fl, (client,), (strategy,) = cm.new_sim()
        mw = fl._market_middleware[0]
        step = c.choose("event", ["traded", "suspend", "sp", "cancel", "other-runner-removed"])
        kind = c.choose("kind", ["LIMIT", "LOC", "MOC"]) if step == "sp" else "LIMIT"
        c.tag("event", step); c.tag("kind", kind)
        tp = 2.0
        tv0 = c.cents("tv0", 0, 1000000)
        bk1 = cm.book([cm.runner(1, tv=[{"price": tp, "size": tv0}]), cm.runner(2)], version=7)
        market = cm.add_market(fl, bk1)
        mw(market)
        if kind == "LIMIT":
            o, d = ss.resting_limit(c, "o", fl, market, strategy, 100, price_values=[1.5, 2.0, 3.0, 11.0, 1000.0], max_frags=1,
                                    status=OrderStatus.CANCELLING if step == "cancel" else OrderStatus.EXECUTABLE)
        else:
            side = c.choose("o_side", ["BACK", "LAY"])
            liab = c.cents("o_liability", 1, 1000000)
            o = cm.mk_loc(strategy, side, liab, c.pick("o_price", [1.5, 3.0, 1000.0])) if kind == "LOC" else cm.mk_moc(strategy, side, liab)
            cm.place_resting(fl, market, strategy, o, 100)
        c.tag("side", o.side)
        before = _order_loss(c, o)
        tol = 0.01
        r1 = cm.runner(1, tv=[{"price": tp, "size": tv0}])
        bk2 = cm.book([r1, cm.runner(2)], version=7, pt_ms=cm.T0_MS + 1000)
        with c.guard("event"):
            if step == "traded":
                r1.ex.traded_volume = [{"price": tp, "size": tv0 + c.cents("traded_delta", 0, 2000000)}]
                o.simulated._piq = c.cents("piq", 0, 1000000)
                market(bk2); mw(market)
            elif step == "suspend":
                bk2.status, bk2.version = "SUSPENDED", 8
                market(bk2); mw(market)
            elif step == "sp":
                bk2.bsp_reconciled, bk2.inplay = True, True
                sp = c.pick("actual_sp", [1.01, 1.5, 2.0, 7.4, 30.0, 1000.0])
                r1.sp = cm.SP(actualSP=sp)
                # the exchange works the stake of an SP lay out of the liability and rounds it to the cent: half a cent of
                # stake times the odds is the most the liability can move
                tol = 0.01 + 0.005 * (sp - 1)
                market(bk2); mw(market)
                c.cover("sp")
            elif step == "cancel":
                o.update_data["size_reduction"] = c.cents("size_reduction", 1, 2000000) if c.choose("partial", [True, False]) else None
                client.execution.handler(ss.package(fl, market, [o], OrderPackageType.CANCEL))
            else:
                bk2.runners[1].status = "REMOVED"
                bk2.runners[1].adjustment_factor = c.cents("adjustment_factor", 1, 9900)
                market(bk2); mw(market)
            fl._process_simulated_orders(market)
        after = _order_loss(c, o)
        c.observe("loss_before", before)
        c.observe("loss_after", after)
        c.ob("worst-case-loss-not-raised", after <= before + tol)
        c.cover("event")


def h01t(c):
    """end to end through a batching transaction: a new order on selection 1 and a second request on selection 2 in one
    market.transaction() block with explicit execute() calls at symbolic positions, real default controls, real package creation,
    every package handed to the real simulated execution against a book that fills everything: what the exchange has then
    matched / holds for the strategy on the selection loses no more than the configured limit, and each accepted order was handed
    over exactly once"""
    with cm.config_set(simulated=True, place_latency=0.0):
        ms = c.cents("max_selection", 0, 5000000)
        fl, (client,), (strategy,) = cm.new_sim(strategy_kwargs=dict(max_order_exposure=None, max_selection_exposure=ms, max_live_trade_count=10))
        side = c.choose("side", ["BACK", "LAY"])
        size = c.cents("size", 1, 5000000)
        price = c.pick("price", [1.5, 2.0, 3.0, 11.0])
        deep = [{"price": 1000.0, "size": 10000000.0}]
        bk = cm.book([cm.runner(1, atb=deep, atl=[{"price": 1.01, "size": 10000000.0}]), cm.runner(2, atb=deep, atl=[{"price": 1.01, "size": 10000000.0}])])
        market = cm.add_market(fl, bk)
        delivered = []
        real_handler = client.execution.handler
        a = cm.mk_limit(strategy, side, price, size)
        b = cm.mk_limit(strategy, "BACK", 2.0, 2.0, selection_id=2)
        with fl.simulated_datetime:
            with c.guard("transaction"):
                with market.transaction() as t:
                    ok_a = t.place_order(a)
                    if c.choose("execute_after_first", [False, True]):
                        t.execute()
                    ok_b = t.place_order(b)
                    if c.choose("execute_after_second", [False, True]):
                        t.execute()
                        if c.choose("execute_twice", [False, True]):
                            t.execute()
            with c.guard("delivery"):
                while fl.handler_queue:
                    p = fl.handler_queue.pop(0)
                    delivered.extend(p._orders)
                    real_handler(p)
        c.observe("accepted", ok_a)
        n_a = len([o for o in delivered if o is a])
        if ok_a:
            c.cover("accepted")
            c.ob("accepted.handed-to-exchange-exactly-once", n_a == 1, times=n_a)
            c.ob("exchange-side.loss-within-selection-limit", _order_loss(c, a) <= ms + TOL)
        else:
            c.cover("refused")
            c.ob("refused.never-sent", n_a == 0)
            c.ob("refused.violation", a.status == OrderStatus.VIOLATION)
        c.ob("second-order.handed-over-at-most-once", len([o for o in delivered if o is b]) == (1 if ok_b else 0))


def h01u(c, K=4):
    """the 'consequently' clause through the framework's own enforcement: a strategy with the default max_live_trade_count=1 places
    crossing BACK orders of symbolic size in new trades at any time and in its latest trade (also a completed one, re-used) whenever
    nothing of its own is awaiting acknowledgement; packages are acknowledged (real simulated execution, everything fills) at symbolic
    points: whatever reached the exchange loses no more than the selection limit"""
    with cm.config_set(simulated=True, place_latency=0.0):
        ms = c.cents("max_selection", 0, 5000000)
        fl, (client,), (strategy,) = cm.new_sim(strategy_kwargs=dict(max_order_exposure=None, max_selection_exposure=ms, max_live_trade_count=1, max_trade_count=100))
        # the best level may be thinner than an order (it is then partly matched and its remainder rests); a deep level waits behind it
        thin = c.cents("best_level_size", 1, 5000000) if c.choose("best_level", ["deep", "thin"]) == "thin" else 10000000.0
        bk = cm.book([cm.runner(1, atb=[{"price": 2.0, "size": thin}, {"price": 1.5, "size": 10000000.0}], atl=[{"price": 2.5, "size": 10000000.0}]), cm.runner(2)])
        market = cm.add_market(fl, bk)
        from flumine.order.trade import Trade
        sent, trades = [], []

        def ack():
            while fl.handler_queue:
                p = fl.handler_queue.pop(0)
                if p.package_type == OrderPackageType.PLACE:
                    sent.extend(p._orders)
                client.execution.handler(p)
            fl._process_simulated_orders(market)

        with fl.simulated_datetime:
            for k in range(K):
                pending = any(o.status == OrderStatus.PENDING for o in market.blotter)
                resting = [o for o in market.blotter if o.status == OrderStatus.EXECUTABLE and c.is_true(o.size_remaining > 0)]
                acts = ["new-trade", "acknowledge", "read-exposure"] + (["latest-trade"] if trades and not pending else []) + (["re-price-resting-order"] if resting and not pending else [])
                act = c.choose("step%d" % k, acts)
                with c.guard("step%d" % k):
                    if act == "acknowledge":
                        ack()
                        continue
                    if act == "read-exposure":
                        # the strategy looks at its own exposure (logging, sizing): reading never changes what later checks see
                        market.blotter.selection_exposure(strategy, (cm.MID, 1, 0))
                        market.blotter.market_exposure(strategy, market.market_book)
                        continue
                    if act == "re-price-resting-order":
                        # price replacement of a (partly matched) resting order down to the deep level: only the remainder is re-placed
                        if market.replace_order(resting[0], 1.5):
                            c.cover("re-priced")
                        continue
                    tr = Trade(cm.MID, 1, 0, strategy) if act == "new-trade" else trades[-1]
                    o = tr.create_order("BACK", cm.LimitOrder(2.0, c.cents("size%d" % k, 1, 5000000)))
                    if market.place_order(o):
                        c.cover("accepted")
                        if tr not in trades:
                            trades.append(tr)
                        if act == "latest-trade":
                            c.cover("trade-reused")
                    else:
                        c.cover("refused")
            with c.guard("final-acknowledgement"):
                ack()
        loss = 0
        for o in market.blotter:  # (every order the exchange knows, replacement orders created by the execution layer included)
            if o.bet_id is not None:
                loss = loss + _order_loss(c, o)
        c.ob("exchange-side.loss-within-selection-limit", loss <= ms + TOL * max(1, len(market.blotter)), orders_sent=len(sent))
        c.ob("each-order-placed-once", len(set(id(o) for o in sent)) == len(sent))


OUT = ["more than n prior orders per selection", "prices outside the finite set in mode S / sizes outside the finite set in mode P",
       "Betdaq UPDATE (price/size change) path", "H01b covers one event on one order (composition over orders and events is the induction argument, not a query)"]
HARNESSES = [
    Harness("H01a-S", h01a, quick=dict(n=1, mode="S"), thorough=dict(n=2, mode="S"), pattern="P2 inductive step", requires=["accepted", "refused"],
            wall_s=(300, 3000), max_paths=(150000, 5000000), outside=OUT),
    Harness("H01a-P", h01a, quick=dict(n=1, mode="P"), thorough=dict(n=1, mode="P"), pattern="P2 inductive step", requires=["accepted", "refused"],
            wall_s=(300, 3000), max_paths=(150000, 5000000), outside=OUT),
    Harness("H01a-mkt", h01a, quick=dict(n=1, mode="S", market_limit=True, others=1, winners=(1,), sel_limit_too=False), thorough=dict(n=1, mode="S", market_limit=True, others=1, winners=(1, 2), sel_limit_too=False),
            pattern="P2 inductive step", requires=["accepted", "refused"], wall_s=(300, 3000), max_paths=(150000, 5000000), outside=OUT),
    Harness("H01t", h01t, pattern="P3 short history (batching transaction -> real simulated execution)", requires=["accepted", "refused"], outside=OUT),
    Harness("H01u", h01u, quick=dict(K=4), thorough=dict(K=5), pattern="P3 bounded history (default controls, real simulated execution)",
            requires=["accepted", "refused", "trade-reused", "re-priced"], outside=OUT),
    Harness("H01b", h01b, pattern="P2 inductive step", requires=["event", "sp"], outside=OUT),
    Harness("H01r-S", h01r, quick=dict(n=1, mode="S"), thorough=dict(n=1, mode="S"), pattern="P2 inductive step", requires=["accepted", "refused"],
            wall_s=(300, 3000), max_paths=(150000, 5000000), outside=OUT),
    Harness("H01r-P", h01r, quick=dict(n=1, mode="P"), thorough=dict(n=1, mode="P"), pattern="P2 inductive step", requires=["accepted"],
            wall_s=(300, 3000), max_paths=(150000, 5000000), outside=OUT),
]
META = {"assumptions": ["Inv(pre): the position is within the configured limits before the request (P2 induction hypothesis)",
                        "acknowledgement discipline: no PENDING order of the strategy on the selection (property domain note)"]}
