"""C12 Exchange call faults never strand an order or lose a transaction count"""
from symx.run import Harness
from flumine.order.order import OrderStatus
from flumine.order.orderpackage import OrderPackageType
from flumine.order.trade import TradeStatus
from . import common as cm
from . import simstate as ss
from . import lifecycle as lc

S = OrderStatus


def h12_live(c, n=2, kinds=None):
    """live: packages of n orders of each kind through the real BetfairExecution (_execution_helper retry path, reset_orders,
    _order_logger, add_transaction) against the exchange double with the full fault product"""
    with cm.config_set(simulated=False):
        kind = c.choose("kind", kinds or lc.KINDS)
        w = lc.live_handler_step(c, kind, n=n)
        lc.c12_obligations(c, w)
        if w["fail_until"] >= 4:
            c.cover("retries-exhausted")
        if any(w["meanwhile"]):
            c.cover("completed-meanwhile")
        if any(oc["status"] == "TIMEOUT" for oc in w["outcomes"]):
            c.cover("timeout")
        if w["misorder"] != "in-order":
            c.cover("cancel-reports-misordered")
        c.cover("handled")


def h12_sim(c, n=2):
    """simulation: a package of n orders through the real SimulatedExecution where (symbolically) some order has been matched,
    lapsed or voided between request and execution"""
    with cm.config_set(simulated=True):
        fl, (client,), (strategy,) = cm.new_sim(client_kwargs=dict(transaction_limit=c.choose("transaction_limit", [5000, None])))
        mw = fl._market_middleware[0]
        kind = c.choose("kind", lc.KINDS)
        c.tag("kind", kind.name)
        bk = cm.book([cm.runner(1, atb=[{"price": 1.5, "size": 100.0}], atl=[{"price": 4.0, "size": 100.0}]), cm.runner(2)], version=7)
        market = cm.add_market(fl, bk)
        mw(market)
        orders = []
        with lc.Recorder() as rec:
            if kind == OrderPackageType.PLACE:
                with market.transaction() as t:
                    for i in range(n):
                        o = cm.mk_limit(strategy, c.choose("o%d_side" % i, ["BACK", "LAY"]), 2.0, c.cents("o%d_size" % i, 1, 1000000))
                        t.place_order(o, force=True)
                        orders.append(o)
                pkg = fl.handler_queue.pop()
            else:
                for i in range(n):
                    if kind == OrderPackageType.REPLACE and c.choose("o%d_type" % i, ["LIMIT", "LIMIT_ON_CLOSE"]) == "LIMIT_ON_CLOSE":
                        # (the API lets a limit-on-close order be re-priced; the simulated exchange refuses it at the cancel stage)
                        o = cm.mk_loc(strategy, "BACK", 10.0, 2.0)
                        cm.place_resting(fl, market, strategy, o, 100 + i, status=lc.TRANSIENT[kind])
                        o.update_data["new_price"] = 3.0
                        orders.append(o)
                        c.cover("limit-on-close-in-replace-package")
                        continue
                    o, d = ss.resting_limit(c, "o%d" % i, fl, market, strategy, 100 + i, status=lc.TRANSIENT[kind], price=2.0, persistence="LAPSE",
                                            max_frags=0, allow_cancelled=False, side="BACK")
                    if kind == OrderPackageType.UPDATE:
                        # (the request asks for PERSIST or - also on a market without starting prices - MARKET_ON_CLOSE)
                        o.order_type.persistence_type = c.choose("o%d_new_persistence" % i, ["PERSIST", "MARKET_ON_CLOSE"])
                        market.market_book.market_definition.bsp_market = c.choose("bsp_market", [True, False]) if i == 0 else market.market_book.market_definition.bsp_market
                    elif kind == OrderPackageType.REPLACE:
                        o.update_data["new_price"] = 3.0
                    elif kind == OrderPackageType.CANCEL:
                        o.update_data["size_reduction"] = None
                    orders.append(o)
                pkg = ss.package(fl, market, orders, kind)
            meanwhile = []
            for i, o in enumerate(orders):
                how = c.choose("o%d_meanwhile" % i, ["nothing", "matched", "lapsed"]) if (kind != OrderPackageType.PLACE and o.order_type.ORDER_TYPE.name == "LIMIT") else "nothing"
                meanwhile.append(how)
                sim = o.simulated
                if how == "matched":
                    sim.matched = sim.matched + [[cm.T0_MS, 2.0, sim.size_remaining]]
                    sim.size_matched = cm.total([f[2] for f in sim.matched])
                elif how == "lapsed":
                    sim.size_lapsed = sim.size_remaining
            c.tag("meanwhile", "/".join(meanwhile))
            fl._process_simulated_orders(market)
            market.market_book.status = c.choose("market_status_at_response", ["OPEN", "SUSPENDED"])
            with c.guard("handler"):
                client.execution.handler(pkg)
            with c.guard("sweep"):
                fl._process_simulated_orders(market)
        for i, o in enumerate(orders):
            c.ob("order%d.ends-progressable" % i, o.status in (S.EXECUTABLE, S.EXECUTION_COMPLETE), status=o.status.name)
            c.ob("order%d.trade-not-pending" % i, o.trade.status != TradeStatus.PENDING)
            if meanwhile[i] != "nothing":
                c.ob("order%d.completed-stays-complete" % i, o.status == S.EXECUTION_COMPLETE)
        # transaction counts (simulated): placement/replacement instructions + failed instructions reported
        ctl = [x for x in client.trading_controls if x.NAME == "MAX_TRANSACTION_COUNT"][0]
        live_at_exec = [o for o, how in zip(orders, meanwhile)]
        market_open = market.market_book.status == "OPEN"
        if kind == OrderPackageType.PLACE:
            c.ob("txn-count.bets", ctl.transaction_count == n)
            c.ob("txn-count.failed", ctl.failed_transaction_count == 0)
        elif kind == OrderPackageType.CANCEL:
            c.ob("txn-count.bets", ctl.transaction_count == 0)
            c.ob("txn-count.failed", ctl.failed_transaction_count == (0 if market_open else n))
        elif kind == OrderPackageType.REPLACE:
            c.ob("txn-count.bets", ctl.transaction_count == n, counted=ctl.transaction_count)
        if any(m != "nothing" for m in meanwhile):
            c.cover("completed-meanwhile")
        if len(list(market.blotter)) > n:
            c.cover("replacement")
        c.cover("handled")


OUT = ["Betdaq execution (property: a successful update legitimately stays 'updating' until the next poll)", "packages of more than n orders",
       "thread schedules below handler granularity"]
def h12_trade(c):
    """a late response applied to a trade that completed meanwhile, the trade then re-used (C10 harness): no trade is left in its transient
    pending state, whatever the outcome of the further order"""
    from .c10 import h10e
    from .c06 import _Only
    h10e(_Only(c, ("trade-not-left-pending", "trade-complete<=>orders-complete", "no-exception", "order-accepted")))


HARNESSES = [
    Harness("H12-trade", h12_trade, pattern="P5 (late response on a completed trade) + P3", requires=["trade-reused", "all-complete"], outside=OUT, selfcheck=False),
    Harness("H12-live", h12_live, quick=dict(n=2), thorough=dict(n=3, kinds=[OrderPackageType.CANCEL, OrderPackageType.REPLACE]), pattern="P5 fault schedule as a variable",
            requires=["handled", "retries-exhausted", "completed-meanwhile", "timeout", "cancel-reports-misordered"], wall_s=(300, 3000), max_paths=(300000, 3000000), outside=OUT),
    Harness("H12-sim", h12_sim, quick=dict(n=2), thorough=dict(n=3), pattern="P5 fault schedule as a variable", requires=["handled", "completed-meanwhile", "replacement", "limit-on-close-in-replace-package"],
            wall_s=(300, 3000), outside=OUT),
]
META = {"assumptions": ["handler granularity; time.sleep (retry back-off) stubbed; ThreadPoolExecutor.submit inlined"]}
