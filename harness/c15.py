"""C15 Blotter views are coherent with the orders placed"""
from symx.run import Harness
from flumine.order.order import OrderStatus
from flumine.order.orderpackage import OrderPackageType
from flumine.order.trade import Trade
from . import common as cm
from . import simstate as ss
from . import lifecycle as lc
from . import position as pos
from .c10 import _sim_history

S = OrderStatus


def h15a(c, K=3):
    """K-step public-API histories in simulation (placements, replacements, package processing, fills, cancels, lapses, runner
    removal): after every step every placed order is exactly once in the blotter and in each view, lookups return the very
    object, the live list holds every order that is not complete"""
    with cm.config_set(simulated=True):
        rec, market, strategy = _sim_history(c, K, recount=False, coherence=True, handicaps=(-1.5,))
        if len(list(market.blotter)) >= 2:
            c.cover("several-orders")
        if any(o.bet_id and o.trade.orders.index(o) > 0 for o in market.blotter):
            c.cover("multi-order-trade")
        c.cover("history")


def h15b(c, n=2):
    """live mode: a request handled by the real BetfairExecution (placements, replacements creating new orders) followed by
    order-stream snapshots (known orders, replaced bets, unknown orders adopted, duplicated snapshots, closed market)"""
    with cm.config_set(simulated=False):
        kind = c.choose("kind", [OrderPackageType.PLACE, OrderPackageType.REPLACE, OrderPackageType.CANCEL])
        w = lc.live_handler_step(c, kind, n=n, allow_errors=False, allow_misorder=False)
        fl, client, market, strategy = w["fl"], w["client"], w["market"], w["strategy"]
        lc.blotter_coherence(c, market, list(market.blotter), tag="after-response")
        # an unknown bet of this strategy appears in the snapshot (e.g. placed before a restart); the snapshot is delivered twice
        closed = c.choose("market_closed_at_adoption", [False, True])
        if closed:
            market.close_market()
        ghost = Trade(cm.MID, 2, 0, strategy).create_order("LAY", cm.LimitOrder(3.0, 4.0))
        co = cm.current_order(ghost.customer_order_ref, "990", selection_id=2, side="LAY", price=3.0, size=4.0)
        known = [cm.current_order(o.customer_order_ref, o.bet_id, size=10.0) for o in market.blotter if o.bet_id and o.status != S.EXECUTION_COMPLETE]
        n_before = len(market.blotter)
        for rep in range(2):
            with c.guard("snapshot-%d" % rep):
                fl._process_current_orders(cm.current_orders_event(client, known + [co]))
            m2 = fl.markets.markets[cm.MID]
            c.ob("snapshot%d.market-object-kept" % rep, m2 is market)
            adopted = [o for o in market.blotter if o.id == ghost.id]
            c.ob("snapshot%d.adopted-exactly-once" % rep, len(adopted) == 1 and len(market.blotter) == n_before + 1, orders=len(market.blotter))
            if adopted:
                a = adopted[0]
                c.ob("snapshot%d.lookup-by-id" % rep, fl.markets.get_order(cm.MID, ghost.id) is a)
                c.ob("snapshot%d.lookup-by-bet-id" % rep, fl.markets.get_order_from_bet_id(cm.MID, "990") is a)
                c.ob("snapshot%d.adopted-strategy" % rep, a.trade.strategy is strategy and a.selection_id == 2)
            lc.blotter_coherence(c, market, list(market.blotter), tag="snapshot%d" % rep)
        for o in market.blotter:
            # the bet-id view covers replacement and adopted orders (they carry their bet id when they enter the blotter)
            if o.bet_id and (o.bet_id.startswith("8") or o.bet_id == "990"):
                c.ob("bet-id-lookup-returns-placed-object", market.blotter.get_order_bet_id(o.bet_id) is o)
                c.cover("bet-id-view")
        c.cover("adopted")
        if closed:
            c.cover("adopted-into-closed-market")


def h15c(c, n=2):
    """filters on status and matched-only return precisely the orders satisfying them (lazily symbolic status, symbolic
    matched size), across two strategies, two clients, two selections"""
    with cm.config_set(simulated=True):
        fl, clients, strategies = cm.new_sim(n_strategies=2, n_clients=2)
        market = cm.add_market(fl, cm.book([cm.runner(1), cm.runner(2)]))
        orders = []
        for i in range(n):
            st = strategies[c.choose("o%d_strategy" % i, [0, 1])]
            cl = clients[c.choose("o%d_client" % i, [0, 1])]
            sel = c.choose("o%d_selection" % i, [1, 2])
            o = cm.mk_limit(st, "BACK", 2.0, 10.0, selection_id=sel)
            o.update_client(cl)
            status = c.enum("o%d_status" % i, pos.STATUS_ALL)
            o.status = status
            m = c.cents("o%d_matched" % i, 0, 1000)
            if c.is_true(m > 0):
                o.simulated.matched = [[0, 2.0, m]]
                o.simulated.size_matched = m
            o.bet_id = str(300 + i)
            market.blotter[o.id] = o
            orders.append(dict(o=o, st=st, cl=cl, sel=sel, status=status, m=m))
        flt = c.choose("status_filter", ["none", "executable", "live", "complete"])
        sf = {"none": None, "executable": [S.EXECUTABLE], "live": [S.PENDING, S.EXECUTABLE, S.CANCELLING, S.UPDATING, S.REPLACING],
              "complete": [S.EXECUTION_COMPLETE, S.VIOLATION]}[flt]
        mo = c.choose("matched_only", [None, False, True])  # (False, like None, means no filter on the matched size)
        b = market.blotter
        views = [("strategy_orders", lambda w: w["st"] is strategies[0], lambda: b.strategy_orders(strategies[0], order_status=sf, matched_only=mo)),
                 ("strategy_selection_orders", lambda w: w["st"] is strategies[0] and w["sel"] == 1, lambda: b.strategy_selection_orders(strategies[0], 1, 0, order_status=sf, matched_only=mo)),
                 ("client_orders", lambda w: w["cl"] is clients[0], lambda: b.client_orders(clients[0], order_status=sf, matched_only=mo)),
                 ("client_strategy_orders", lambda w: w["cl"] is clients[0] and w["st"] is strategies[0], lambda: b.client_strategy_orders(clients[0], strategies[0], order_status=sf, matched_only=mo))]
        for name, member, call in views:
            with c.guard(name):
                res = call()
            for i, w in enumerate(orders):
                present = any(x is w["o"] for x in res)
                want = member(w)
                if want and sf is not None:
                    want = pos.enum_in(w["status"], sf)
                if mo:
                    want = c.And(want, w["m"] > 0)
                c.ob("%s.order%d.listed<=>satisfies-filter" % (name, i), (want if present else c.Not(want)))
                c.ob("%s.order%d.at-most-once" % (name, i), len([x for x in res if x is w["o"]]) <= 1)
        c.cover("filters")


OUT = ["more than 3 (thorough 4) steps / 2 orders per request", "Betdaq polling"]
def h15d(c, K=3):
    """live mode (C11 world: requests, late responses, exchange-side fills, current / stale snapshots, replaced bets whose stream update
    may arrive before the replace response): at quiescence every bet has exactly one local order and every view lists each order once"""
    from .c11 import h11a
    from .c06 import _Only
    h11a(_Only(c, ("exactly-one-local-order", "orders-once", "lookup-identity", "view-once", "live-list-at-most-once", "incomplete-order-in-live-list", "bet-id-lookup", "view-entry", "live-list-entry", "no-exception")), K=K)


def h15e(c):
    """Betdaq polling around an in-flight request (C03 world): an order that is not complete never leaves the live list, whatever the poll says"""
    from .c03 import h03b_betdaq
    from .c06 import _Only
    h03b_betdaq(_Only(c, ("betdaq.", "no-exception")))


def h15f(c):
    """an order refused by one client's control and then placed through another client (C02 world): it is listed under the client that placed it"""
    from .c02 import h02a
    from .c06 import _Only
    h02a(_Only(c, ("retry-with-other-client", "no-exception")), mode="sim")


HARNESSES = [
    Harness("H15f", h15f, pattern="P2 inductive step", requires=["retried-with-other-client"], outside=OUT, selfcheck=False),
    Harness("H15e", h15e, pattern="P5 fault schedule as a variable", requires=["handled", "poll-in-flight"], outside=OUT, selfcheck=False),
    Harness("H15d", h15d, quick=dict(K=3), thorough=dict(K=4), pattern="P3/P5 schedule as a variable", requires=["run", "snapshot", "replaced-bet"], outside=OUT,
            max_paths=(400000, 5000000), wall_s=(300, 3000), selfcheck=False),
    Harness("H15a", h15a, quick=dict(K=3), thorough=dict(K=4), pattern="P3 bounded history", requires=["history", "several-orders"], outside=OUT,
            max_paths=(300000, 3000000), wall_s=(300, 3000)),
    Harness("H15b", h15b, quick=dict(n=2), pattern="P3/P5", requires=["adopted", "adopted-into-closed-market", "bet-id-view"], outside=OUT, max_paths=(300000, 3000000)),
    Harness("H15c", h15c, quick=dict(n=2), thorough=dict(n=3), pattern="P1 kernel-with-oracle", requires=["filters"], outside=OUT, max_paths=(80000, 5000000)),
]
META = {"assumptions": ["structural property: little arithmetic; the schedule / statuses / fault outcomes are the symbolic part"]}
