"""C18 The transaction-limit control counts exactly and blocks when exceeded"""
import datetime as _dt
from symx.run import Harness
from symx import core
from symx.shims import ClockShim
from flumine.controls.clientcontrols import MaxTransactionCount
from flumine.order.order import OrderStatus
from . import common as cm

HOUR_US = 3600 * 10**6
DAY_US = 24 * HOUR_US
T_LO = 1_600_000_000 * 10**6
T_HI = 1_900_000_000 * 10**6


def _hour_index(c, t):
    """absolute clock-hour index of an instant (independent of the code's replace()/date()/hour arithmetic)"""
    if isinstance(t, core.SymTime):
        return core.Sym(core.ctx().floordiv(t.us, core.z3.IntVal(HOUR_US)))
    d = t - core._EPOCH
    return (d.days * 86400 * 10**6 + d.seconds * 10**6 + d.microseconds) // HOUR_US


def h18a(c, steps=2):
    """MaxTransactionCount: arbitrary counters and request history, then `steps` rounds of (executions report counts,
    a request arrives at a symbolic later instant) through the real control; shadow counters vs the real ones"""
    with cm.config_set(simulated=True):
        limit = c.int("limit", 0, 6000) if c.choose("limit_set", [True, False]) else None
        fl, clients, (strategy,) = cm.new_sim(n_clients=2, client_kwargs=[dict(username="a", transaction_limit=limit), dict(username="b", transaction_limit=3)])
        ca, cb = clients
        ctl = [x for x in ca.trading_controls if isinstance(x, MaxTransactionCount)][0]
        ctl_b = [x for x in cb.trading_controls if isinstance(x, MaxTransactionCount)][0]
        market = cm.add_market(fl, cm.book([cm.runner(1)]))
        # pre-state: a previous request at t0 (or none at all), arbitrary counters
        fresh = c.choose("fresh_control", [False, True])
        t_prev = c.time_us("t0", T_LO, T_HI)
        if not fresh:
            ClockShim.now = t_prev
            ctl._check_hour()
            a = c.int("hourly_bets", 0, 7000)
            f = c.int("hourly_failed", 0, 7000)
            A = c.int("total_bets", 0, 10**6)
            Fd = c.int("total_failed", 0, 10**6)
            c.assume(c.And(A >= a, Fd >= f))
            ctl.current_transaction_count, ctl.current_failed_transaction_count = a, f
            ctl.transaction_count, ctl.failed_transaction_count = A, Fd
        else:
            a = f = A = Fd = 0
        hourly, total = a + f, A + Fd
        last_hour = None if fresh else _hour_index(c, t_prev)
        tb = t_prev
        for k in range(steps):
            n = c.int("n%d" % k, 0, 300)
            failed = c.choose("failed%d" % k, [False, True])
            ca.add_transaction(n, failed=failed)
            hourly, total = hourly + n, total + n
            c.ob("step%d.total=shadow" % k, ca.transaction_count_total == total)
            c.ob("step%d.hourly=shadow" % k, ca.current_transaction_count_total == hourly)
            c.ob("step%d.other-client-unaffected" % k, c.And(cb.transaction_count_total == 0, cb.current_transaction_count_total == 0))
            t = c.time_us("t%d" % (k + 1), T_LO, T_HI)
            c.assume(t >= tb)
            tb = t
            ClockShim.now = t
            order = cm.mk_limit(strategy, "BACK", 2.0, 2.0)
            forced = c.choose("force%d" % k, [False, True]) if k == steps - 1 else False
            with c.guard("place_order"):
                accepted = market.place_order(order, client=ca, force=forced)
            hi = _hour_index(c, t)
            new_hour = True if last_hour is None else c.is_true(hi != last_hour)
            if new_hour:
                c.cover("new-hour")
                if not forced:
                    hourly = 0
                    last_hour = hi
                    c.ob("step%d.new-hour-resets" % k, ca.current_transaction_count_total == 0)
            elif not forced:
                c.ob("step%d.same-hour-keeps" % k, ca.current_transaction_count_total == hourly)
            if forced:
                c.ob("step%d.forced-accepted" % k, accepted is True)
                c.cover("forced")
                continue
            exceeded = False if limit is None else (hourly > limit)
            if accepted:
                c.ob("step%d.accepted=>not-exceeded" % k, c.Not(exceeded))
                c.cover("accepted")
            else:
                c.ob("step%d.refused=>exceeded" % k, exceeded)
                c.ob("step%d.refused.violation" % k, order.status == OrderStatus.VIOLATION)
                c.cover("refused")
            if limit is None:
                c.ob("step%d.no-limit-never-blocks" % k, accepted is True)
            c.ob("step%d.total-unchanged-by-request" % k, ca.transaction_count_total == total)
        # client b is blocked by its own small limit only
        ClockShim.now = tb
        cb.add_transaction(c.int("nb", 0, 10))
        ob = cm.mk_limit(strategy, "BACK", 2.0, 2.0)
        with c.guard("place_order_b"):
            acc_b = market.place_order(ob, client=cb)
        c.ob("client-b.blocked-iff-own-count-exceeds-own-limit", acc_b == c.Not(cb.current_transaction_count_total > 3) if not isinstance(cb.current_transaction_count_total > 3, bool) else acc_b == (not cb.current_transaction_count_total > 3))
        c.ob("client-a.unaffected-by-b", ca.transaction_count_total == total)


class _OnlyCounts:
    """forwards everything to the real context but keeps only the transaction-count obligations of the C12 harnesses"""

    def __init__(self, c):
        object.__setattr__(self, "_c", c)

    def __getattr__(self, k):
        return getattr(self._c, k)

    def __setattr__(self, k, v):
        setattr(self._c, k, v)

    def ob(self, name, cond, **tags):
        if name.startswith("txn-count") or name.startswith("no-exception"):
            self._c.ob(name, cond, **tags)


def h18b_sim(c, n=2):
    """counts reported by the real SimulatedExecution handlers per package kind and failure pattern (C12 harness, count obligations only)"""
    from .c12 import h12_sim
    h12_sim(_OnlyCounts(c), n=n)


def h18b_live(c, n=2):
    """counts reported by the real BetfairExecution handlers against the exchange double (C12 harness, count obligations only)"""
    from .c12 import h12_live
    h12_live(_OnlyCounts(c), n=n)


def h18c(c, N=3, focus="C18"):
    """two simulated clients (A: the default client, with a symbolic transaction limit; B: no limit) through the real order flow
    (Market.place_order / replace_order -> Transaction -> controls -> package -> SimulatedExecution handlers) for a symbolic script
    of N requests, a shadow ledger per client kept by the harness.
    C18 focus: per-client counters = bets submitted by that client, A refused exactly when over its own limit, B never refused;
    C08 focus: after the close each client's cleared summary covers exactly the orders that client placed (replacements included)"""
    from flumine.order.order import OrderStatus
    with cm.config_set(simulated=True, place_latency=0.0, replace_latency=0.0):
        limit = c.choose("A_transaction_limit", [0, 1, 2, None])
        fl, (A, B), (strategy,) = cm.new_sim(n_clients=2, client_kwargs=[dict(username="A", transaction_limit=limit, commission_base=0.05),
                                                                         dict(username="B", transaction_limit=None, commission_base=0.02)],
                                              strategy_kwargs=dict(max_live_trade_count=100, max_order_exposure=None, max_selection_exposure=None))
        bk = cm.book([cm.runner(1, atb=[{"price": 3.0, "size": 100000.0}]), cm.runner(2)])
        market = cm.add_market(fl, bk)
        ctl = {X: [t for t in X.trading_controls if t.NAME == "MAX_TRANSACTION_COUNT"][0] for X in (A, B)}
        shadow = {A: 0, B: 0}
        placed = {A: [], B: []}  # every order (replacements included) that belongs to the client, by the harness's own book-keeping
        with fl.simulated_datetime:
            fl.simulated_datetime(bk.publish_time)
            for k in range(N):
                who = c.choose("step%d_client" % k, ["A", "B"])
                X = A if who == "A" else B
                live = [o for o in placed[X] if o.status == OrderStatus.EXECUTABLE and o.size_remaining > 0]
                kind = c.choose("step%d_request" % k, ["place-rest", "place-cross"] + (["replace-rest", "replace-cross"] if live else []))
                over = X.transaction_limit is not None and shadow[X] > X.transaction_limit
                with c.guard("step%d" % k):
                    if kind.startswith("place"):
                        o = cm.mk_limit(strategy, "BACK", 5.0 if kind == "place-rest" else 2.5, 5.0)
                        ok = market.place_order(o, client=X)
                    else:
                        o = live[0]
                        ok = market.replace_order(o, (6.0 if o.order_type.price != 6.0 else 7.0) if kind == "replace-rest" else 2.5)
                    n_new = 0
                    while fl.handler_queue:
                        p = fl.handler_queue.pop(0)
                        c.ob("step%d.package-belongs-to-requesting-client" % k, p.client is X)
                        n_new += len(p._orders)
                        p.client.execution.handler(p)
                    fl._process_simulated_orders(market)
                if who == "B":
                    c.ob("step%d.unlimited-client-never-refused" % k, ok is True)
                else:
                    c.ob("step%d.refused<=>over-own-limit" % k, (ok is False) == over, limit=limit, submitted=shadow[X])
                if ok:
                    shadow[X] += n_new
                    if kind.startswith("place"):
                        placed[X].append(o)
                    else:
                        rep = [x for x in market.blotter if x not in placed[A] and x not in placed[B]]
                        c.ob("step%d.one-replacement-order" % k, len(rep) == 1)
                        for x in rep:
                            c.ob("step%d.replacement-belongs-to-the-same-client" % k, x.client is X)
                            placed[X].append(x)
                        c.cover("replaced")
                    c.cover("accepted")
                else:
                    c.cover("refused")
                if focus == "C18":
                    for Y, nm in ((A, "A"), (B, "B")):
                        c.ob("step%d.%s.total-count=bets-submitted" % (k, nm), ctl[Y].transaction_count == shadow[Y], got=ctl[Y].transaction_count, want=shadow[Y])
                        c.ob("step%d.%s.hour-count=bets-submitted" % (k, nm), ctl[Y].current_transaction_count == shadow[Y])
                        c.ob("step%d.%s.no-failures-counted" % (k, nm), ctl[Y].transaction_count_total == shadow[Y])
                        c.ob("step%d.%s.client-view" % (k, nm), sorted(id(x) for x in market.blotter.client_orders(Y)) == sorted(id(x) for x in placed[Y]))
        if focus == "C08":
            res = c.choose("runner_status", ["WINNER", "LOSER"])
            cb = cm.book([cm.runner(1, status=res), cm.runner(2, status="LOSER" if res == "WINNER" else "WINNER")], status="CLOSED")
            market.blotter.process_closed_market(market, cb)
            for Y, nm, rate in ((A, "A", 0.05), (B, "B", 0.02)):
                with c.guard("cleared"):
                    cl = market.cleared(Y)
                matched = [x for x in placed[Y] if x.size_matched > 0]
                want = sum((x.size_matched * (x.average_price_matched - 1)) if res == "WINNER" else -x.size_matched for x in matched)
                c.ob("cleared.%s.bet-count=orders-this-client-placed" % nm, cl["betCount"] == len(matched), got=cl["betCount"], want=len(matched))
                c.ob("cleared.%s.profit=sum-over-orders-this-client-placed" % nm, abs(cl["profit"] - want) < 0.011, got=cl["profit"], want=want)
                c.ob("cleared.%s.commission-at-own-rate" % nm, abs(cl["commission"] - max(round(cl["profit"] * rate, 2), 0)) < 0.011)
            c.cover("cleared")


HARNESSES = [
    Harness("H18c", h18c, quick=dict(N=3), thorough=dict(N=5), pattern="P3 bounded history (schedule symbolic)", requires=["accepted", "refused", "replaced"], selfcheck=False),
    Harness("H18b-sim", h18b_sim, quick=dict(n=2), pattern="P5 fault schedule as a variable", requires=["handled"]),
    Harness("H18b-live", h18b_live, quick=dict(n=2), pattern="P5 fault schedule as a variable", requires=["handled"], max_paths=(300000, 3000000)),
    Harness("H18a", h18a, quick=dict(steps=2), thorough=dict(steps=3), pattern="P2 inductive step (+ short history)", clock_modules=("flumine.controls.clientcontrols",),
            requires=["new-hour", "accepted", "refused", "forced"], wall_s=(300, 3000),
            outside=["true thread interleavings inside add_transaction (lock): handler granularity only",
                     "counts reported by the execution handlers per package kind: obligations of C12/H12 (txn-count)"]),
]
META = {"assumptions": ["clock instants: integer microseconds in [2020, 2030]; hour/day arithmetic by relational floor division"]}
