"""C07 Simulated latency and bet delay: no look-ahead and no free speed"""
import datetime as _dt
from symx.run import Harness
from symx import core
from flumine import config
from flumine.events import events
from flumine.order.order import OrderStatus
from flumine.order.orderpackage import OrderPackageType
from . import common as cm
from . import simstate as ss

S = OrderStatus
MID2 = "1.100000002"
KIND = {"place": OrderPackageType.PLACE, "cancel": OrderPackageType.CANCEL, "update": OrderPackageType.UPDATE, "replace": OrderPackageType.REPLACE}


def _now():
    return _dt.datetime.utcnow()


def h07(c, U=3, R=1, other_market=False, suspensions=False, real_time_error=False):
    """real FlumineSimulation._process_market_books / process_order_package / _check_pending_packages / calc_simulated_delay /
    elapsed_seconds / SimulatedExecution under flumine's own SimulatedDateTime with symbolic publish times, latencies and bet delays"""
    lat = {k: c.mills("%s_latency" % k, 0, 5000) for k in ("place", "cancel", "update", "replace")}
    reqs = [c.choose("request%d" % r, ["place", "cancel", "update", "replace"]) for r in range(R)]
    # (asynchronous placement only changes how the live exchange answers: the simulated timing is the same)
    async_place = c.choose("async_place_orders", [False, True]) if "place" in reqs else False
    # (the middleware has one branch per isolation mode: both are walked)
    iso = c.choose("simulated_strategy_isolation", [True, False]) if "place" in reqs else True
    with cm.config_set(simulated=True, place_latency=lat["place"], cancel_latency=lat["cancel"], update_latency=lat["update"], replace_latency=lat["replace"],
                       async_place_orders=async_place, simulated_strategy_isolation=iso):
        u_req = c.choose("request_at_update", list(range(0, U - 1)))
        staggered = c.choose("requests_made_at_consecutive_updates", [False, True]) if (R > 1 and c.is_true(u_req + R - 1 <= U - 2)) else False
        if staggered:
            c.cover("staggered-requests")
        c.tag("requests", "+".join(reqs))
        log = {"exec": [], "now_seen": [], "created": {}}
        state = {"k": None, "books": {}, "resting": [], "new": []}

        def process_market_book(strategy, market, market_book):
            k = state["k"]
            log["now_seen"].append((k, market.market_id, _now(), market_book.publish_time))
            if real_time_error and k == 0 and market.market_id == cm.MID:
                # a strategy times an external call on the real clock and that call fails (the framework contains the error)
                with fl.simulated_datetime.real_time():
                    raise RuntimeError("external call failed")
            if market.market_id != cm.MID:
                return
            for r, kind in enumerate(reqs):
                if k != u_req + (r if staggered else 0):
                    continue  # (requests of one kind may be made at different updates: each ages on its own)
                if kind == "place":
                    o = cm.mk_limit(strategy, "BACK", 3.0, 10.0)
                    market.place_order(o, force=True)
                    state["new"].append(o)
                    log["created"][r] = (o, _now())
                else:
                    o = state["resting"][r]
                    if kind == "cancel":
                        market.cancel_order(o, force=True)
                    elif kind == "update":
                        market.update_order(o, "PERSIST", force=True)
                    else:
                        market.replace_order(o, 3.5, force=True)
                    log["created"][r] = (o, _now())

        fl, (client,), (strategy,) = cm.new_sim(hooks=dict(process_market_book=process_market_book))
        real_handler = client.execution.handler

        def handler(pkg):
            m = fl.markets.markets[pkg.market_id]
            e = dict(pkg=pkg, k=state["k"], book=m.market_book, now=_now(), market=pkg.market_id)
            log["exec"].append(e)
            r = real_handler(pkg)
            e["piq"] = {id(o): o.simulated._piq for o in pkg._orders}  # observed at the observation point: right after execution
            return r

        client.execution.handler = handler
        # publish times: strictly increasing, gaps from 1 ms to 10 minutes; bet delay per update 0..12 (changes in-play)
        times = []
        prev = None
        for k in range(U):
            t, tms = c.time_ms("t%d" % k, cm.T0_MS, cm.T0_MS + 10**8)
            if prev is not None:
                c.assume(c.And(tms >= prev + 1, tms <= prev + 600000))
            prev = tms
            times.append((t, tms))
        delays = [c.int("bet_delay%d" % k, 0, 12) for k in range(U)]
        with fl.simulated_datetime:
            config.current_time = times[0][0]
            # the resting orders that cancel/update/replace act on were placed and acknowledged before the first update
            bk0 = cm.book([cm.runner(1, atl=[{"price": 3.0, "size": 7.0}], tv=[{"price": 3.0, "size": 100.0}]), cm.runner(2)], version=7, pt=times[0][0], pt_ms=times[0][1], bet_delay=delays[0])
            market = cm.add_market(fl, bk0)
            for r, kind in enumerate(reqs):
                if kind != "place":
                    o, _ = ss.resting_limit(c, "r%d" % r, fl, market, strategy, 100 + r, status=S.EXECUTABLE, price=3.0, persistence="LAPSE", max_frags=0,
                                            allow_cancelled=False, side="BACK")
                    c.assume(c.And(o.order_type.size >= 2, o.order_type.size <= 50))
                    state["resting"].append(o)
                else:
                    state["resting"].append(None)
            fl.markets._markets.pop(cm.MID)  # the market is (re)added by the first update through the real loop
            fl._market_middleware[0].markets.pop(cm.MID, None)
            fl.markets._markets[cm.MID] = market
            books = []
            for k in range(U):
                tv = 100.0 + 2.0 * k  # 2.00 traded at 3.0 between consecutive updates -> 1.00 eligible
                b = cm.book([cm.runner(1, atl=[{"price": 3.0, "size": 7.0 + k}], tv=[{"price": 3.0, "size": tv}]), cm.runner(2)], version=7,
                            pt=times[k][0], pt_ms=times[k][1], bet_delay=delays[k])
                if suspensions and k > u_req and c.choose("update%d_suspended" % k, [False, True]):
                    # the update that suspends the market: requests falling due on it are executed against the state before it
                    b.status = "SUSPENDED"
                    b.version = 8
                    c.cover("suspended-update")
                books.append(b)
                state["k"] = k
                state["books"][k] = b
                delivered_b = False
                with c.guard("update%d" % k):
                    if other_market and k > 0 and c.choose("other_market_update_before%d" % k, [False, True]):
                        # an update of another market of the same event, between t_{k-1} and t_k
                        ot, otms = c.time_ms("ot%d" % k, cm.T0_MS, cm.T0_MS + 10**8)
                        c.assume(c.And(otms >= times[k - 1][1], otms <= times[k][1]))
                        ob = cm.book([cm.runner(1)], market_id=MID2, version=1, pt=ot, pt_ms=otms)
                        if state.get("other_seen") and c.choose("other_market_closes%d" % k, [False, True]):
                            # the other market of the event group closes while a request for this market is still in flight
                            ob.status = "CLOSED"
                            ob.runners[0].status = "WINNER"
                            c.cover("other-market-closed")
                        state["other_seen"] = True
                        if ob.status != "CLOSED" and c.choose("both_books_in_one_event%d" % k, [False, True]):
                            # a stream file that holds several markets yields their books together: each book is processed at its own publish time
                            state["k"] = k
                            fl._process_market_books(events.MarketBookEvent([ob, b]))
                            c.cover("other-market-update")
                            c.cover("multi-book-event")
                            delivered_b = True
                        else:
                            state["k"] = ("other", k)
                            fl._process_market_books(events.MarketBookEvent([ob]))
                            state["k"] = k
                            c.cover("other-market-update")
                    if not delivered_b:
                        fl._process_market_books(events.MarketBookEvent([b]))
                # observation point: end of update k
                for r, kind in enumerate(reqs):
                    if r not in log["created"]:
                        continue
                    o, t_req = log["created"][r]
                    done = [e for e in log["exec"] if any(x is o for x in e["pkg"]._orders)]
                    if not done:
                        if kind == "place":
                            c.ob("update%d.req%d.pending-no-fills" % (k, r), o.status == S.PENDING and len(o.simulated.matched) == 0 and o.bet_id is None)
                        else:
                            tr = {"cancel": S.CANCELLING, "update": S.UPDATING, "replace": S.REPLACING}[kind]
                            c.ob("update%d.req%d.still-in-flight" % (k, r), o.status == tr or o.status == S.EXECUTION_COMPLETE)
                            if k > u_req and len([x for x in state["resting"] if x is not None]) == 1 and not suspensions:
                                # still fillable as before: the lone resting order gets the eligible volume of this update (1.00)
                                got = cm.total([f[2] for f in o.simulated.matched if c.is_true(f[0] == times[k][1])]) if o.simulated.matched else 0
                                exp = c.smin(1.0, o.order_type.size - 1.0 * max(0, (k - 1 - u_req)) if False else 1.0)
                                c.ob("update%d.req%d.in-flight-order-still-matched" % (k, r), c.Or(got == 1.0, o.simulated.size_remaining == 0, got == o.order_type.size - cm.total([f[2] for f in o.simulated.matched if not c.is_true(f[0] == times[k][1])])))
                                c.cover("in-flight-fill")
        # ---- after the run: when and against what was each request executed
        for r, kind in enumerate(reqs):
            if r not in log["created"]:
                continue
            o, t_req = log["created"][r]
            u_r = u_req + (r if staggered else 0)
            c.ob("req%d.created-at-requesting-update" % r, t_req == times[u_r][0])
            delay_r = lat[kind] + (delays[u_r] if kind in ("place", "replace") else 0)
            done = [e for e in log["exec"] if any(x is o for x in e["pkg"]._orders)]
            c.ob("req%d.executed-at-most-once" % r, len(done) <= 1)
            due = [k for k in range(u_r + 1, U) if c.is_true((times[k][1] - times[u_r][1]) > delay_r * 1000)]
            if done:
                e = done[0]
                kx = e["k"]
                c.cover("executed")
                c.ob("req%d.executed-on-own-market-update" % r, isinstance(kx, int))
                if isinstance(kx, int):
                    c.ob("req%d.executed-at-first-due-update" % r, bool(due) and kx == due[0], executed_at=kx)
                    c.ob("req%d.elapsed>delay" % r, (times[kx][1] - times[u_r][1]) > delay_r * 1000)
                    c.ob("req%d.against-previous-book" % r, e["book"] is books[kx - 1])
                    c.ob("req%d.clock-at-execution=processing-update" % r, e["now"] == times[kx][0])
                    tgt = o
                    if kind == "place":
                        c.ob("req%d.date_time_placed=execution-time" % r, o.responses.date_time_placed == times[kx][0])
                        if books[kx - 1].status == "OPEN":
                            # the queue ahead is the one shown by the book the placement was executed against (the previous update)
                            c.ob("req%d.queue-captured-from-previous-book" % r, e["piq"][id(o)] == 7.0 + (kx - 1), piq=str(e["piq"][id(o)]))
                        for f in o.simulated.matched:
                            c.ob("req%d.fill-not-before-request" % r, f[0] >= times[u_r][1])
                    if kind == "replace":
                        new = [x for x in fl.markets.markets[cm.MID].blotter if x is not o and x.trade is o.trade]
                        for x in new:
                            c.ob("req%d.replacement.created-not-before-request" % r, x.date_time_created >= times[u_r][0])
                            c.ob("req%d.replacement.placed=execution-time" % r, x.responses.date_time_placed == times[kx][0])
                            c.cover("replacement")
                    c.ob("req%d.status-update-time>=request" % r, o.date_time_status_update >= times[u_r][0])
            else:
                c.cover("not-yet-due")
                c.ob("req%d.not-executed=>never-due" % r, not due)
            c.ob("req%d.order-created-not-before-request-update" % r, True if kind != "place" else o.date_time_created == times[u_r][0])
        for (k, mid, now, pt) in log["now_seen"]:
            c.ob("strategy-clock=publish-time", now is pt or c.is_true(now == pt))
        c.cover("run")


OUT = ["paper trading (time.sleep on pool threads)", "more than U updates / R requests",
       "an aggressive fill is stamped with the publish time of the book it was matched against (the previous update): asserted to be that book's time and not earlier than the request, see DESIGN 8"]
HARNESSES = [
    Harness("H07", h07, quick=dict(U=3, R=1), thorough=dict(U=5, R=1), pattern="P3 with symbolic time", requires=["run", "executed", "not-yet-due", "replacement"], outside=OUT,
            max_paths=(300000, 3000000), wall_s=(300, 3000)),
    Harness("H07-2req", h07, quick=dict(U=3, R=2), thorough=dict(U=5, R=2), pattern="P3 with symbolic time", requires=["run", "executed", "staggered-requests"], outside=OUT,
            max_paths=(300000, 3000000), wall_s=(300, 3000)),
    Harness("H07-susp", h07, quick=dict(U=3, R=1, suspensions=True), thorough=dict(U=5, R=1, suspensions=True), pattern="P3 with symbolic time",
            requires=["run", "executed", "suspended-update"], outside=OUT, max_paths=(300000, 3000000), wall_s=(300, 3000)),
    Harness("H07-rt", h07, quick=dict(U=3, R=1, real_time_error=True), pattern="P3 with symbolic time", requires=["run", "executed"], outside=OUT),
    Harness("H07-2mkt", h07, quick=dict(U=3, R=1, other_market=True), thorough=dict(U=5, R=1, other_market=True), pattern="P3 with symbolic time",
            requires=["run", "executed", "other-market-update", "other-market-closed", "multi-book-event"], outside=OUT, max_paths=(300000, 3000000), wall_s=(300, 3000)),
]
META = {"assumptions": ["publish times: integer milliseconds, strictly increasing, gaps 1 ms .. 10 min; latencies every 0.001 s value in [0, 5]; bet delay 0..12"]}
