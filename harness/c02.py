"""C02 Refused requests change nothing; accepted requests are sent exactly once"""
from symx.run import Harness
from symx.shims import SymSeq
from symx import core
from betfairlightweight.metadata import order_limits
from flumine import utils
from flumine.controls import BaseControl
from flumine.controls.tradingcontrols import ExecutionValidation
from flumine.exceptions import OrderUpdateError, ControlError
from flumine.order.order import OrderStatus
from flumine.order.orderpackage import OrderPackageType, BetfairOrderPackage, BetdaqOrderPackage
from flumine.order.trade import Trade
from . import common as cm
from . import simstate as ss
from . import lifecycle as lc

S = OrderStatus


class RefuseAll(BaseControl):
    NAME = "CUSTOM_REFUSE"

    def _validate(self, order, package_type):
        self._on_error(order, "custom control says no")


def _snapshot(order, market, strategy, tx=None):
    rc = strategy.get_runner_context(*order.lookup)
    b = market.blotter
    return dict(
        status=order.status, status_log=list(order.status_log), update_data=dict(order.update_data),
        persistence=getattr(order.order_type, "persistence_type", None), price=getattr(order.order_type, "price", None),
        complete=order.complete, violation_msg=None,
        trade_status=order.trade.status, trade_log=list(order.trade.status_log), trade_orders=list(order.trade.orders),
        in_blotter=order.id in b, blotter_ids=sorted(b._orders.keys()), live=[id(o) for o in b._live_orders], views=lc.views_sig(b),
        rc_trades=list(rc.trades), rc_live=list(rc.live_trades), rc_placed=rc.datetime_last_placed, rc_reset=rc.datetime_last_reset, rc_invested=rc.invested,
    )


def h02a(c, mode="sim"):
    """the four Market.*_order entry points with every refusal source made reachable: refused => nothing sent and order,
    trade, blotter and runner accounting exactly as before (a refused NEW order: VIOLATION and absent from the blotter)"""
    with cm.config_set(simulated=(mode == "sim")):
        op = c.choose("operation", ["place", "cancel", "update", "replace"])
        sources = ["none", "market-not-open", "no-market-book", "exposure", "txn-limit", "custom-control", "own-guard"]
        if op == "place":
            sources = ["none", "market-not-open", "no-market-book", "exposure", "strategy-validate", "invalid-order", "txn-limit", "custom-control", "already-placed"]
        if mode == "live" and op != "place":
            sources.append("stream-down")
        if mode == "sim" and op != "place":
            sources.append("wrong-client")
        src = c.choose("refusal_source", sources)
        force = c.choose("force", [False, True]) if src != "no-market-book" else False
        c.tag("operation", op); c.tag("source", src); c.tag("force", force); c.tag("mode", mode)
        sent = []
        other_client = None
        if mode == "sim":
            fl, (client, other_client), (strategy,) = cm.new_sim(n_clients=2, strategy_kwargs=dict(max_order_exposure=1000, max_selection_exposure=1000, max_live_trade_count=5))
        else:
            ex = lc.ExchangeDouble()
            fl, client, (strategy,) = cm.new_live(exchange=ex, strategy_kwargs=dict(max_order_exposure=1000, max_selection_exposure=1000, max_live_trade_count=5))
            fl.add_trading_control(ExecutionValidation)
        fl.process_order_package = lambda p: sent.append(p)
        bk = cm.book([cm.runner(1), cm.runner(2)], version=7)
        market = cm.add_market(fl, bk) if mode == "sim" else fl._add_market(cm.MID, bk)
        if op == "place" and src == "already-placed":
            # the very order object was placed before (it rests at the exchange, or has completed): not a state that permits a placement
            if mode == "sim":
                order, _ = ss.resting_limit(c, "o", fl, market, strategy, 100, status=c.choose("placed_order_status", [S.EXECUTABLE, S.EXECUTION_COMPLETE]), price=2.0,
                                            persistence="LAPSE", max_frags=0, allow_cancelled=False, side="BACK")
                c.assume(c.And(order.order_type.size >= 2, order.order_type.size <= 100))
            else:
                order = lc.live_resting(fl, market, strategy, client, 100, 5.0)
        elif op == "place":
            sibling = None
            if src not in ("no-market-book",) and c.choose("trade_has_a_completed_sibling_order", [False, True]):
                # entry and hedge created up-front in one trade: the entry was placed and has completed, the trade is still live (the hedge
                # has not been placed yet); refusing the hedge must leave that trade and the runner accounting alone
                if mode == "sim":
                    sibling, _ = ss.resting_limit(c, "sib", fl, market, strategy, 90, status=S.EXECUTABLE, price=2.0, persistence="LAPSE", max_frags=0,
                                                  allow_cancelled=False, side="BACK")
                    c.assume(c.And(sibling.order_type.size >= 2, sibling.order_type.size <= 100))
                else:
                    sibling = lc.live_resting(fl, market, strategy, client, 90, 5.0)
            order = cm.mk_limit(strategy, c.choose("side", ["BACK", "LAY"]), 2.0, 5.0, trade=sibling.trade if sibling is not None else None)
            if sibling is not None:
                with sibling.trade:
                    sibling.execution_complete()
                market.blotter.complete_order(sibling)
                c.cover("completed-sibling")
        elif mode == "sim":
            order, _ = ss.resting_limit(c, "o", fl, market, strategy, 100, status=S.EXECUTABLE, price=2.0, persistence="LAPSE", max_frags=0,
                                        allow_cancelled=False, side="BACK")
            c.assume(c.And(order.order_type.size >= 2, order.order_type.size <= 100))  # an order below the account minimum could not have been placed
        else:
            order = lc.live_resting(fl, market, strategy, client, 100, 5.0)
        if op in ("place", "replace"):
            strategy.max_market_exposure = c.choose("max_market_exposure", [None, 1000])
        # ---- an accepted request of another kind may still be in flight for the order (sent, not yet executed)
        outstanding = None
        if op != "place" and src in ("none", "market-not-open", "exposure", "txn-limit", "custom-control"):
            outstanding = c.choose("outstanding_request", [None, "cancel", "update", "replace", "placement"])
            if outstanding == "cancel":
                market.cancel_order(order, 1.0, force=True)
            elif outstanding == "update":
                market.update_order(order, "PERSIST", force=True)
            elif outstanding == "replace":
                market.replace_order(order, 2.5, force=True)
            elif outstanding == "placement":
                # the order's own placement has not been acknowledged yet: pending, no bet id
                order.status = S.PENDING
                order.status_log.append(S.PENDING)
                order.bet_id = None
                sent.append("placement in flight")
            if outstanding:
                c.ob("outstanding-request-sent", len(sent) == 1)
                sent.clear()
                c.cover("second-request-while-in-flight")
        c.tag("outstanding", outstanding)
        # ---- make the chosen refusal source fire
        if src == "market-not-open":
            bk.status = "SUSPENDED"
        elif src == "no-market-book":
            market.market_book_backup = market.market_book
            fl.markets._markets[cm.MID].market_book = None if op != "place" else market.market_book
            if op == "place":
                # place reads market_book.publish_time before anything else: use 'market missing from the framework' instead
                del fl.markets._markets[cm.MID]
        elif src == "exposure":
            strategy.max_order_exposure = 0.5
            strategy.max_selection_exposure = 0.5
        elif src == "strategy-validate":
            strategy.max_trade_count = 0
        elif src == "invalid-order":
            order.order_type.price = 2.01
        elif src == "txn-limit":
            client.transaction_limit = 3
            [x for x in client.trading_controls if x.NAME == "MAX_TRANSACTION_COUNT"][0]._check_hour()  # an earlier request this hour
            client.add_transaction(5)
        elif src == "custom-control":
            client.trading_controls.append(RefuseAll(fl))
        elif src == "own-guard":
            how = c.choose("guard_reason", ["pending", "cancelling", "complete", "no-bet-id"])
            c.tag("guard_reason", how)
            if how == "no-bet-id":
                order.bet_id = None
            else:
                order.status = {"pending": S.PENDING, "cancelling": S.CANCELLING, "complete": S.EXECUTION_COMPLETE}[how]
                order.complete = order._is_complete()
        elif src == "stream-down":
            order.responses.cancel_responses = [cm.NS(status="FAILURE")] * 12
            order.responses.update_responses = [cm.NS(status="FAILURE")] * 12
            order.responses.replace_responses = [cm.NS(status="FAILURE")] * 12
        # which sources actually apply to this operation (exposure control only looks at place / replace)
        applies = src != "none"
        if src == "exposure" and op in ("cancel", "update"):
            applies = False
        if src in ("market-not-open", "no-market-book", "exposure", "strategy-validate", "invalid-order", "txn-limit", "custom-control", "stream-down") and force:
            applies = False
        if src == "already-placed":
            applies = True
        if outstanding:
            applies = True  # one operation in flight: the order's own guard refuses, with or without controls
        # (a request made through another client's transaction is refused whatever `force` says: force skips the controls only)
        before = _snapshot(order, market, strategy)
        raised = None
        res = None
        try:
            if op == "place":
                res = market.place_order(order, force=force)
            elif src == "wrong-client":
                from flumine.exceptions import OrderError
                try:
                    with market.transaction(client=other_client) as t:
                        if op == "cancel":
                            res = t.cancel_order(order, force=force)
                        elif op == "update":
                            res = t.update_order(order, "PERSIST", force=force)
                        else:
                            res = t.replace_order(order, 3.0, force=force)
                except OrderError as e:
                    raised = e
            elif op == "cancel":
                res = market.cancel_order(order, force=force)
            elif op == "update":
                res = market.update_order(order, "PERSIST", force=force)
            else:
                res = market.replace_order(order, 3.0, force=force)
        except OrderUpdateError as e:
            raised = e
        except KeyError as e:
            raised = e  # market missing from the framework
        except Exception as e:  # noqa
            from flumine.exceptions import OrderError as _OE
            if not isinstance(e, _OE):
                raise
            raised = e  # an order that has already been placed
        refused = raised is not None or res is False
        after = _snapshot(order, market, strategy)
        c.observe("refused", refused)
        if applies:
            c.ob("refusal-source-refuses", refused)
        else:
            c.ob("no-refusal-source-accepts", not refused)
        if refused:
            c.cover("refused")
            c.ob("refused.nothing-sent", len(sent) == 0)
            if op == "place" and src == "already-placed":
                for k in before:
                    c.ob("refused-second-placement.%s-unchanged" % k, after[k] == before[k], before=str(before[k])[:60], after=str(after[k])[:60])
                c.cover("second-placement-refused")
            elif op == "place":
                c.ob("refused-new-order.violation", order.status == S.VIOLATION)
                c.ob("refused-new-order.not-in-blotter", not after["in_blotter"])
                for k in ("blotter_ids", "live", "views", "rc_trades", "rc_live", "rc_placed", "rc_reset", "rc_invested", "trade_status", "trade_log"):
                    c.ob("refused-new-order.%s-unchanged" % k, after[k] == before[k])
            else:
                for k in before:
                    c.ob("refused.%s-unchanged" % k, after[k] == before[k], before=str(before[k])[:60], after=str(after[k])[:60])
            if op == "place" and mode == "sim" and src in ("txn-limit", "custom-control") and not force:
                # the order was refused by a control of the first client: the same order object placed through the other client is accepted and
                # belongs to that client from then on (every view by client lists it there and only there)
                with c.guard("retry-with-other-client"):
                    ok2 = market.place_order(order, client=other_client)
                c.ob("retry-with-other-client.accepted", ok2 is True)
                c.ob("retry-with-other-client.order-belongs-to-it", order.client is other_client and any(x is order for x in market.blotter.client_orders(other_client))
                     and not any(x is order for x in market.blotter.client_orders(client)), client=getattr(order.client, "username", None))
                c.cover("retried-with-other-client")
        else:
            c.cover("accepted")
            kind = {"place": OrderPackageType.PLACE, "cancel": OrderPackageType.CANCEL, "update": OrderPackageType.UPDATE, "replace": OrderPackageType.REPLACE}[op]
            c.ob("accepted.sent-exactly-once", len(sent) == 1 and sent[0].package_type == kind and [o for o in sent[0]._orders] == [order])
            c.ob("accepted.in-flight-status", order.status == lc.TRANSIENT[kind])
            lc.blotter_coherence(c, market, list(market.blotter), tag="accepted.blotter")
            if op == "place":
                # forcing skips the controls and nothing else: the runner is charged with the trade like for any other placement
                tid = order.trade.id
                c.ob("accepted-new-order.runner-charged", after["rc_trades"] == before["rc_trades"] + ([tid] if tid not in before["rc_trades"] else [])
                     and after["rc_live"] == before["rc_live"] + ([tid] if tid not in before["rc_live"] else [])
                     and after["rc_placed"] is not None and after["rc_invested"] is True, force=force)


def h02a_betdaq(c):
    """Betdaq client: the same refusal discipline for place / cancel / update (and replace, which Betdaq orders do not support)"""
    from flumine.baseflumine import BaseFlumine
    from flumine.clients.betdaqclient import BetdaqClient
    from flumine.exceptions import OrderError
    from flumine.order.order import BetdaqOrder
    from flumine.order.ordertype import BetdaqLimitOrder
    with cm.config_set(simulated=False):
        op = c.choose("operation", ["place", "cancel", "update", "replace"])
        sources = {"place": ["none", "invalid-price", "exposure", "strategy-validate", "txn-limit", "custom-control"],
                   "cancel": ["none", "txn-limit", "custom-control", "own-guard", "size-reduction-not-supported"],
                   "update": ["none", "exposure", "txn-limit", "custom-control", "own-guard"],
                   "replace": ["not-supported"]}[op]
        src = c.choose("refusal_source", sources)
        force = c.choose("force", [False, True])
        c.tag("operation", op); c.tag("source", src); c.tag("force", force); c.tag("mode", "betdaq")
        client = BetdaqClient(betting_client=cm.NS(username="bdq", betting=cm.NS()), order_stream=False)
        fl = BaseFlumine(client)
        sent = []
        fl.process_order_package = lambda p: sent.append(p)
        strategy = cm.add_live_strategy(fl, "s", dict(max_order_exposure=1000, max_selection_exposure=1000, max_live_trade_count=5))
        market = fl._add_market(cm.MID, cm.book([cm.runner(1)], version=7))
        tr = Trade(cm.MID, 1, 0, strategy)
        order = tr.create_betdaq_order("BACK", BetdaqLimitOrder(2.0 if src != "invalid-price" else 2.013, 5.0, 1, 0, 0), BetdaqOrder)
        if op != "place":
            order.update_client(client)
            order.bet_id = 777
            market.blotter[order.id] = order
            order.responses.placed({"order_id": 777, "status": "Unmatched", "remaining_size": 5.0, "matched_size": 0.0})
            order.status = S.EXECUTABLE
            order.status_log.append(S.EXECUTABLE)
            strategy.get_runner_context(*order.lookup).place(tr.id)
        if src == "exposure":
            strategy.max_order_exposure = 0.5
            strategy.max_selection_exposure = 0.5
        elif src == "strategy-validate":
            strategy.max_trade_count = 0
        elif src == "txn-limit":
            client.transaction_limit = 3
            [x for x in client.trading_controls if x.NAME == "MAX_TRANSACTION_COUNT"][0]._check_hour()
            client.add_transaction(5)
        elif src == "custom-control":
            client.trading_controls.append(RefuseAll(fl))
        elif src == "own-guard":
            order.status = S.CANCELLING
        applies = src != "none"
        if src in ("invalid-price", "exposure", "strategy-validate", "txn-limit", "custom-control") and force:
            applies = False
        before = _snapshot(order, market, strategy)
        raised = None
        res = None
        try:
            if op == "place":
                res = market.place_order(order, force=force)
            elif op == "cancel":
                res = market.cancel_order(order, 2.0 if src == "size-reduction-not-supported" else None, force=force)
            elif op == "update":
                res = market.update_order(order, size_delta=-1.0, new_price=2.5, force=force)
            else:
                res = market.replace_order(order, 3.0, force=force)
        except (OrderUpdateError, OrderError) as e:
            raised = e
        refused = raised is not None or res is False
        after = _snapshot(order, market, strategy)
        if applies:
            c.ob("refusal-source-refuses", refused)
        else:
            c.ob("no-refusal-source-accepts", not refused)
        if refused:
            c.cover("refused")
            c.ob("refused.nothing-sent", len(sent) == 0)
            if op == "place" and src == "already-placed":
                for k in before:
                    c.ob("refused-second-placement.%s-unchanged" % k, after[k] == before[k], before=str(before[k])[:60], after=str(after[k])[:60])
                c.cover("second-placement-refused")
            elif op == "place":
                c.ob("refused-new-order.violation", order.status == S.VIOLATION)
                c.ob("refused-new-order.not-in-blotter", not after["in_blotter"])
                for k in ("blotter_ids", "live", "rc_trades", "rc_live", "rc_placed", "rc_invested", "trade_status", "trade_log"):
                    c.ob("refused-new-order.%s-unchanged" % k, after[k] == before[k])
            else:
                for k in before:
                    c.ob("refused.%s-unchanged" % k, after[k] == before[k], before=str(before[k])[:60], after=str(after[k])[:60])
        else:
            c.cover("accepted")
            kind = PT[op]
            c.ob("accepted.sent-exactly-once", len(sent) == 1 and sent[0].package_type == kind and [o for o in sent[0]._orders] == [order])
            c.ob("accepted.package-is-betdaq", type(sent[0]).__name__ == "BetdaqOrderPackage")


KINDS = ["place", "cancel", "update", "replace"]
PT = {"place": OrderPackageType.PLACE, "cancel": OrderPackageType.CANCEL, "update": OrderPackageType.UPDATE, "replace": OrderPackageType.REPLACE}


def h02b(c, N=3):
    """up to N requests batched in one market.transaction() with symbolic kinds, market versions and explicit execute()
    positions: every accepted request is in exactly one package of the matching kind, one market version per package,
    request order preserved, nothing left queued after the transaction ends"""
    with cm.config_set(simulated=True):
        fl, (client,), (strategy,) = cm.new_sim()
        sent = []
        fl.process_order_package = lambda p: sent.append(p)
        bk = cm.book([cm.runner(1), cm.runner(2)], version=7)
        market = cm.add_market(fl, bk)
        resting = []
        for i in range(N):
            o, _ = ss.resting_limit(c, "r%d" % i, fl, market, strategy, 100 + i, status=S.EXECUTABLE, price=2.0, persistence="LAPSE", max_frags=0,
                                    allow_cancelled=False, side="BACK")
            resting.append(o)
        shadow = []  # (kind, order, version)
        n = c.choose("n_requests", list(range(0, N + 1)))
        raised = None
        t = market.transaction()
        try:
            with t:
                for k in range(n):
                    kind = c.choose("kind%d" % k, KINDS + (["rejected-cancel"] if k == n - 1 else []))
                    if kind == "rejected-cancel":
                        # a request the order's own guard rejects raises out of the with-block: what was accepted before it must
                        # still be delivered when the transaction ends
                        bad = cm.mk_limit(strategy, "BACK", 2.0, 5.0)
                        bad.update_client(client)
                        c.cover("rejected-inside-batch")
                        t.cancel_order(bad, force=True)
                    ver = c.choose("version%d" % k, [None, 7, 8]) if kind in ("place", "replace") else None
                    if kind == "place":
                        o = cm.mk_limit(strategy, "BACK", 2.0, 5.0)
                        ok = t.place_order(o, market_version=ver, force=True)
                    else:
                        o = resting[k]
                        if kind == "cancel":
                            ok = t.cancel_order(o, force=True)
                        elif kind == "update":
                            ok = t.update_order(o, "PERSIST", force=True)
                        else:
                            ok = t.replace_order(o, 3.0, market_version=ver, force=True)
                    if ok:
                        shadow.append((kind, o, ver))
                    if c.choose("execute_after%d" % k, [False, True]):
                        t.execute()
                        c.cover("explicit-execute")
        except OrderUpdateError:
            pass
        except Exception as e:  # noqa
            raised = e
        c.ob("no-exception", raised is None, exception=repr(raised))
        got = []
        for p in sent:
            vers = set()
            for o in p._orders:
                got.append((p.package_type, o))
            c.ob("package.single-market-version", True)
        for kind, o, ver in shadow:
            inp = [p for p in sent if any(x is o for x in p._orders)]
            c.ob("request.in-exactly-one-package", len(inp) == 1 and len([x for x in inp[0]._orders if x is o]) == 1)
            if len(inp) == 1:
                c.ob("request.package-kind-matches", inp[0].package_type == PT[kind])
                c.ob("request.package-market-version", inp[0]._market_version == ver)
        c.ob("no-extra-orders-sent", len(got) == len(shadow))
        # request order preserved within a package
        for p in sent:
            idx = [[i for i, (k, o, v) in enumerate(shadow) if o is x][0] for x in p._orders if any(o is x for (k, o, v) in shadow)]
            c.ob("package.request-order-preserved", idx == sorted(idx))
            c.ob("package.not-empty", len(p._orders) > 0)
        c.ob("nothing-left-queued", not (t._pending_place or t._pending_cancel or t._pending_update or t._pending_replace))
        if len(sent) > 1:
            c.cover("several-packages")
        c.cover("batched")


def h02d(c):
    """per-call instruction limit inside ONE transaction that packages two kinds: one request of a first kind, then one more than the
    exchange's limit of a second kind (real Transaction._create_order_package / chunks / package classes, simulation client = Betfair
    limits): every package holds at most the limit of ITS kind, every request is delivered once, in order"""
    with cm.config_set(simulated=True):
        k1 = c.choose("first_kind", KINDS)
        k2 = c.choose("second_kind", [k for k in KINDS if k != k1])
        explicit = c.choose("execute_between", [False, True])
        lim = {"place": order_limits["placeOrders"], "cancel": order_limits["cancelOrders"], "update": order_limits["updateOrders"], "replace": order_limits["replaceOrders"]}
        n2 = lim[k2] + 1
        fl, (client,), (strategy,) = cm.new_sim(strategy_kwargs=dict(max_live_trade_count=10**6, max_trade_count=10**6))
        sent = []
        fl.process_order_package = lambda p: sent.append(p)
        market = cm.add_market(fl, cm.book([cm.runner(1), cm.runner(2)], version=7))
        resting = []
        for i in range(n2 + 1):
            o = cm.mk_limit(strategy, "BACK", 2.0, 5.0)
            cm.place_resting(fl, market, strategy, o, 1000 + i)
            resting.append(o)
        shadow = []

        def req(t, kind, i):
            if kind == "place":
                o = cm.mk_limit(strategy, "BACK", 2.0, 5.0)
                ok = t.place_order(o, force=True)
            else:
                o = resting[i]
                ok = {"cancel": lambda: t.cancel_order(o, force=True), "update": lambda: t.update_order(o, "PERSIST", force=True),
                      "replace": lambda: t.replace_order(o, 3.0, force=True)}[kind]()
            if ok:
                shadow.append((kind, o))

        with c.guard("transaction"):
            with market.transaction() as t:
                req(t, k1, 0)
                if explicit:
                    t.execute()
                for i in range(n2):
                    req(t, k2, i + 1)
        for p in sent:
            kind = [k for k, v in PT.items() if v == p.package_type][0]
            c.ob("package.within-the-limit-of-its-kind", len(p._orders) <= lim[kind], kind=kind, size=len(p._orders), limit=lim[kind])
            c.ob("package.not-empty", len(p._orders) > 0)
        got = [(p.package_type.value, id(o)) for p in sent for o in p._orders]
        want = [(PT[k].value, id(o)) for k, o in shadow]
        c.ob("every-request-delivered-exactly-once", sorted(got) == sorted(want), delivered=len(got), requested=len(want))
        for kind in (k1, k2):
            seq = [id(o) for p in sent if p.package_type == PT[kind] for o in p._orders]
            c.ob("request-order-preserved", seq == [id(o) for k, o in shadow if k == kind])
        c.cover("over-limit-batch")


def h02c(c):
    """chunk arithmetic of utils.chunks at the real per-call limits with a sequence of symbolic length m in [0, 3L+2]:
    chunks are contiguous, cover [0, m), each holds 1..L elements"""
    kind = c.choose("package_kind", ["betfair-place", "betfair-cancel", "betfair-update", "betfair-replace", "betdaq-place", "betdaq-cancel", "betdaq-update"])
    ex, k = kind.split("-")
    pk = BetfairOrderPackage if ex == "betfair" else BetdaqOrderPackage
    L = pk.order_limit(PT[k])
    doc = {"betfair-place": 200, "betfair-cancel": 60, "betfair-update": 60, "betfair-replace": 60}
    if kind in doc:
        c.ob("limit=exchange-documented", L == doc[kind])
    m = c.int("m", 0, 3 * L + 2)
    if c.mode == "sym":
        seq = SymSeq(0, m)
        pieces = [(p.lo, p.hi) for p in utils.chunks(seq, L)]
    else:
        seq = list(range(m))
        pieces = [(p[0], p[-1] + 1) for p in utils.chunks(seq, L)]
    c.observe("n_chunks", len(pieces))
    pos = 0
    for i, (lo, hi) in enumerate(pieces):
        c.ob("chunk%d.contiguous" % i, lo == pos)
        c.ob("chunk%d.size-1..L" % i, c.And(hi - lo >= 1, hi - lo <= L))
        pos = hi
    c.ob("chunks-cover-all", pos == m)
    c.cover("chunks")

def h02e(c, N=4):
    """delivery stage of the simulation: up to N accepted requests queued as separate packages (real Market.place_order -> real
    FlumineSimulation.process_order_package), each package due or not yet due (symbolic choice), then ONE pass of the real
    FlumineSimulation._check_pending_packages: every due package is handed to the execution layer exactly once, in request order,
    and exactly the packages not yet due stay queued, in order"""
    with cm.config_set(simulated=True):
        fl, (client,), (strategy,) = cm.new_sim()
        market = cm.add_market(fl, cm.book([cm.runner(1), cm.runner(2)], version=7))
        n = c.choose("n_packages", list(range(1, N + 1)))
        with c.guard("place"):
            for i in range(n):
                market.place_order(cm.mk_limit(strategy, "BACK", 2.0, 5.0), force=True)
        queue = list(fl.handler_queue)
        c.ob("accepted.queued-once-each", len(queue) == n)
        due = []
        for i, pkg in enumerate(queue):
            d = c.choose("due%d" % i, [True, False])
            pkg.simulated_delay = -1.0 if d else 1e9
            if d:
                due.append(pkg)
        c.tag("n", n); c.tag("due", "".join("D" if p in due else "-" for p in queue))
        delivered = []
        client.execution.handler = delivered.append
        with c.guard("_check_pending_packages"):
            fl._check_pending_packages(cm.MID)
        c.ob("delivery.every-due-package-exactly-once-in-request-order", len(delivered) == len(due) and all(a is b for a, b in zip(delivered, due)),
             delivered=len(delivered), due=len(due))
        rest = [p for p in queue if p not in due]
        left = list(fl.handler_queue)
        c.ob("delivery.only-packages-not-yet-due-stay-queued", len(left) == len(rest) and all(a is b for a, b in zip(left, rest)), left=len(left), expected=len(rest))
        if len(due) >= 2:
            c.cover("several-due-in-one-pass")
        c.cover("delivered")


OUT = ["Betdaq: market-status validation is not implemented by flumine (marked todo) and is not a refusal source in H02a-betdaq", "N > 3 (thorough 4) requests per transaction combined with real objects: composition of H02b and H02c is an argument, not a query"]
HARNESSES = [
    Harness("H02a-sim", h02a, quick=dict(mode="sim"), pattern="P2 inductive step", requires=["refused", "accepted", "second-request-while-in-flight"], outside=OUT),
    Harness("H02a-live", h02a, quick=dict(mode="live"), pattern="P2 inductive step", requires=["refused", "accepted", "second-request-while-in-flight"], outside=OUT),
    Harness("H02a-betdaq", h02a_betdaq, pattern="P2 inductive step", requires=["refused", "accepted"], outside=OUT, selfcheck=False),
    Harness("H02b", h02b, quick=dict(N=3), thorough=dict(N=4), pattern="P3 bounded history", requires=["batched", "explicit-execute", "several-packages", "rejected-inside-batch"], outside=OUT,
            max_paths=(300000, 3000000), wall_s=(300, 3000)),
    Harness("H02e", h02e, quick=dict(N=4), thorough=dict(N=6), pattern="P1 kernel (real _check_pending_packages, due-ness of each package a choice)", requires=["delivered", "several-due-in-one-pass"], outside=OUT, selfcheck=False),
    Harness("H02d", h02d, pattern="exhaustive choice product at the real limits (structural)", requires=["over-limit-batch"], outside=OUT, selfcheck=False),
    Harness("H02c", h02c, pattern="P1 kernel (symbolic length)", requires=["chunks"], outside=OUT),
]
META = {"assumptions": ["flumine.process_order_package is replaced by a recorder (what reaches the execution layer)"]}
