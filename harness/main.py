"""entry point: python -m harness.main <Cxx> [--tier quick|thorough] [--replay path]"""
import os
import sys
import argparse
import importlib
import logging


def main():
    ap = argparse.ArgumentParser()
    ap.add_argument("pid")
    ap.add_argument("--tier", default=os.environ.get("VERIF_TIER", "quick"), choices=["quick", "thorough"])
    ap.add_argument("--replay")
    ap.add_argument("--only", help="comma separated harness names")
    a = ap.parse_args()
    logging.disable(logging.CRITICAL)
    seed = int(os.environ.get("VERIF_SEED", "0") or 0)
    import flumine
    repo = os.environ.get("VERIF_REPO", "/repo")
    if not os.path.realpath(flumine.__file__).startswith(os.path.realpath(repo)):
        print("harness error: flumine imported from %s, expected %s" % (flumine.__file__, repo))
        return 2
    from symx import run
    mod = importlib.import_module("harness.%s" % a.pid.lower())
    hs = mod.HARNESSES
    if a.only:
        hs = [h for h in hs if h.name in a.only.split(",")]
    if a.replay:
        return run.replay_file(a.replay, mod.HARNESSES)
    return run.run_property(a.pid, hs, a.tier, seed, getattr(mod, "META", {}))


if __name__ == "__main__":
    try:
        rc = main()
    except SystemExit:
        raise
    except BaseException:  # noqa
        import traceback
        traceback.print_exc()
        print("harness error (exit 2)")
        rc = 2
    sys.exit(rc)
