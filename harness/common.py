"""builders for real flumine objects with symbolic leaves (used by all harnesses)"""
import types
import contextlib
import datetime as _dt
import collections

from flumine import config
from flumine.simulation.simulation import FlumineSimulation
from flumine.baseflumine import BaseFlumine
from flumine.clients.simulatedclient import SimulatedClient
from flumine.clients.betfairclient import BetfairClient
from flumine.strategy.strategy import BaseStrategy
from flumine.order.trade import Trade
from flumine.order.order import BetfairOrder, OrderStatus
from flumine.order.ordertype import LimitOrder, LimitOnCloseOrder, MarketOnCloseOrder, OrderTypes
from flumine.markets.middleware import SimulatedMiddleware
from flumine.patching import EX, SP

from symx import core

NS = types.SimpleNamespace
MID = "1.100000001"
STREAM_ID = 1001
T0_MS = 1_700_000_000_000  # an arbitrary base instant (ms since epoch)


@contextlib.contextmanager
def config_set(**kw):
    old = {k: getattr(config, k) for k in kw}
    try:
        for k, v in kw.items():
            setattr(config, k, v)
        yield
    finally:
        for k, v in old.items():
            setattr(config, k, v)


class RecordingStrategy(BaseStrategy):
    """strategy whose callbacks are supplied by the harness"""

    def __init__(self, *a, **kw):
        self.hooks = kw.pop("hooks", {})
        self.calls = []
        super().__init__(*a, **kw)

    def check_market_book(self, market, market_book):
        f = self.hooks.get("check_market_book")
        self.calls.append(("check_market_book", market.market_id, market_book))
        return f(self, market, market_book) if f else True

    def process_market_book(self, market, market_book):
        self.calls.append(("process_market_book", market.market_id, market_book))
        f = self.hooks.get("process_market_book")
        if f:
            f(self, market, market_book)

    def process_orders(self, market, orders):
        self.calls.append(("process_orders", market.market_id, list(orders)))
        f = self.hooks.get("process_orders")
        if f:
            f(self, market, orders)

    def process_new_market(self, market, market_book):
        self.calls.append(("process_new_market", market.market_id, market_book))
        f = self.hooks.get("process_new_market")
        if f:
            f(self, market, market_book)

    def process_closed_market(self, market, market_book):
        self.calls.append(("process_closed_market", market.market_id, market_book))
        f = self.hooks.get("process_closed_market")
        if f:
            f(self, market, market_book)


def new_sim(n_strategies=1, n_clients=1, strategy_kwargs=None, client_kwargs=None, hooks=None):
    """FlumineSimulation with simulated client(s) and recording strategies (no streams, no files)"""
    clients = []
    fl = None
    for i in range(n_clients):
        ck = dict(username="client%d" % i)
        ck.update((client_kwargs or {}) if not isinstance(client_kwargs, list) else client_kwargs[i])
        cl = SimulatedClient(**ck)
        cl.update_account_details()
        clients.append(cl)
        if fl is None:
            fl = FlumineSimulation(cl)
        else:
            fl.add_client(cl)
    strategies = []
    for i in range(n_strategies):
        sk = dict(market_filter={"markets": []}, name="strat%d" % i, max_order_exposure=None, max_selection_exposure=None,
                  max_live_trade_count=10**6)
        sk.update((strategy_kwargs or {}) if not isinstance(strategy_kwargs, list) else strategy_kwargs[i])
        s = RecordingStrategy(hooks=(hooks or {}) if not isinstance(hooks, list) else hooks[i], **sk)
        s.historic_stream_ids = {STREAM_ID}
        fl.strategies(s, fl.clients, fl)
        strategies.append(s)
    return fl, clients, strategies


def runner(selection_id=1, handicap=0, status="ACTIVE", atb=(), atl=(), tv=(), adjustment_factor=None, sp=None, ltp=None):
    return NS(selection_id=selection_id, handicap=handicap, status=status, adjustment_factor=adjustment_factor,
              last_price_traded=ltp, sp=sp if sp is not None else [],
              ex=EX(availableToBack=list(atb), availableToLay=list(atl), tradedVolume=list(tv)))


def market_definition(**kw):
    d = dict(bsp_market=True, persistence_enabled=True, market_type="WIN", each_way_divisor=None,
             market_time=core._EPOCH + _dt.timedelta(milliseconds=T0_MS + 3600_000), event_id="30000001",
             event_type_id="7", event_name="ev", country_code="GB", venue="v", race_type="Flat", number_of_winners=1,
             bet_delay=0, status="OPEN", in_play=False, line_min_unit=None, line_max_unit=None, line_interval=None,
             price_ladder_definition=None)
    d.update(kw)
    return NS(**d)


def book(runners, market_id=MID, status="OPEN", version=1, pt=None, pt_ms=None, inplay=False, bsp_reconciled=False,
         bet_delay=0, number_of_winners=1, number_of_active_runners=None, md=None, stream_id=STREAM_ID):
    if pt is None:
        pt_ms = T0_MS if pt_ms is None else pt_ms
        pt = core._EPOCH + _dt.timedelta(milliseconds=pt_ms) if not isinstance(pt_ms, core.Sym) else None
    return NS(market_id=market_id, status=status, version=version, runners=list(runners), publish_time=pt,
              publish_time_epoch=pt_ms, inplay=inplay, bsp_reconciled=bsp_reconciled, bet_delay=bet_delay,
              number_of_winners=number_of_winners,
              number_of_active_runners=number_of_active_runners if number_of_active_runners is not None else len(
                  [r for r in runners if r.status == "ACTIVE"]),
              market_definition=md or market_definition(), streaming_unique_id=stream_id, streaming_snap=True,
              streaming_update=None, total_matched=0)


def ladder(c, prefix, n, side, lo=101, hi=100000, size_hi=100000):
    """n strictly ordered symbolic price levels; side 'atb' descending, 'atl' ascending"""
    lv = [{"price": c.cents("%sp%d" % (prefix, i), lo, hi), "size": c.cents("%ss%d" % (prefix, i), 1, size_hi)} for i in range(n)]
    for i in range(n - 1):
        if side == "atb":
            c.assume(lv[i]["price"] > lv[i + 1]["price"])
        else:
            c.assume(lv[i]["price"] < lv[i + 1]["price"])
    return lv


def add_market(fl, bk):
    m = fl._add_market(bk.market_id, bk)
    return m


def place_resting(fl, market, strategy, order, bet_id, status=OrderStatus.EXECUTABLE, client=None):
    """put an order into the blotter as if it had been placed and acknowledged (state built directly)"""
    client = client or fl.clients.get_default()
    order.update_client(client)
    order.bet_id = str(bet_id)
    market.blotter[order.id] = order
    order.status = status
    order.complete = order._is_complete()
    order.status_log.append(status)
    rc = strategy.get_runner_context(*order.lookup)
    if order.trade.id not in rc.trades:
        rc.trades.append(order.trade.id)
    if not order.complete and order.trade.id not in rc.live_trades:
        rc.live_trades.append(order.trade.id)
    return order


def mk_limit(strategy, side, price, size, selection_id=1, handicap=0, market_id=MID, persistence="LAPSE", tif=None, mfs=None,
             ladder_def="CLASSIC", line_range_info=None, trade=None):
    trade = trade or Trade(market_id, selection_id, handicap, strategy)
    ot = LimitOrder(price=price, size=size, persistence_type=persistence, time_in_force=tif, min_fill_size=mfs,
                    price_ladder_definition=ladder_def, line_range_info=line_range_info)
    return trade.create_order(side, ot)


def mk_loc(strategy, side, liability, price, selection_id=1, handicap=0, market_id=MID, trade=None):
    trade = trade or Trade(market_id, selection_id, handicap, strategy)
    return trade.create_order(side, LimitOnCloseOrder(liability=liability, price=price))


def mk_moc(strategy, side, liability, selection_id=1, handicap=0, market_id=MID, trade=None):
    trade = trade or Trade(market_id, selection_id, handicap, strategy)
    return trade.create_order(side, MarketOnCloseOrder(liability=liability))


def buckets(order):
    s = order.simulated
    return dict(matched=s.size_matched, remaining=s.size_remaining, cancelled=s.size_cancelled, lapsed=s.size_lapsed,
                voided=s.size_voided)


def total(xs):
    t = 0
    for x in xs:
        t = t + x
    return t


@contextlib.contextmanager
def sim_clock(fl, now):
    """flumine's own SimulatedDateTime patch; `now` may be a SymTime"""
    with fl.simulated_datetime:
        config.current_time = now
        yield


def set_now(now):
    config.current_time = now


# ---------------------------------------------------------------------------------------------------------------
# live-mode world (BaseFlumine + BetfairClient + BetfairExecution against an exchange double)
# ---------------------------------------------------------------------------------------------------------------
class InlinePool:
    """ThreadPoolExecutor stand-in: handler granularity, each execute_* body runs atomically at submit time"""
    _threads = ()
    _work_queue = NS(qsize=lambda: 0)

    def submit(self, fn, *a, **kw):
        fn(*a, **kw)

    def shutdown(self, wait=True):
        pass


def new_live(n_strategies=1, exchange=None, strategy_kwargs=None, hooks=None, client_kwargs=None):
    bc = NS(lightweight=False, username="live", betting=exchange if exchange is not None else NS(), session_expired=False)
    ck = dict(order_stream=False)
    ck.update(client_kwargs or {})
    client = BetfairClient(betting_client=bc, **ck)
    fl = BaseFlumine(client)
    ex = fl.betfair_execution
    ex._thread_pool = InlinePool()
    ex._get_http_session = lambda: NS(time_created=0, time_returned=0)
    strategies = []
    for i in range(n_strategies):
        s = add_live_strategy(fl, "strat%d" % i, (strategy_kwargs or {}) if not isinstance(strategy_kwargs, list) else strategy_kwargs[i],
                              (hooks or {}) if not isinstance(hooks, list) else hooks[i])
        strategies.append(s)
    return fl, client, strategies


def add_live_strategy(fl, name, strategy_kwargs=None, hooks=None):
    sk = dict(market_filter={"marketIds": [MID]}, name=name, max_order_exposure=None, max_selection_exposure=None, max_live_trade_count=10**6)
    sk.update(strategy_kwargs or {})
    s = RecordingStrategy(hooks=hooks or {}, **sk)
    s.streams = [NS(stream_id=STREAM_ID)]
    fl.strategies(s, fl.clients, fl)
    return s


def current_order(ref, bet_id, market_id=MID, selection_id=1, handicap=0, side="BACK", price=2.0, size=2.0, status="EXECUTABLE",
                  size_matched=0.0, size_remaining=None, average_price_matched=0.0, size_cancelled=0.0, size_lapsed=0.0, size_voided=0.0,
                  order_type="LIMIT", persistence_type="LAPSE", bsp_liability=None, placed_date=None):
    return NS(customer_order_ref=ref, customer_strategy_ref=config.customer_strategy_ref, market_id=market_id, bet_id=bet_id,
              selection_id=selection_id, handicap=handicap, side=side, order_type=order_type, persistence_type=persistence_type,
              price_size=NS(price=price, size=size), bsp_liability=bsp_liability, status=status, size_matched=size_matched,
              size_remaining=(size - size_matched) if size_remaining is None else size_remaining,
              average_price_matched=average_price_matched, size_cancelled=size_cancelled, size_lapsed=size_lapsed, size_voided=size_voided,
              placed_date=placed_date or (core._EPOCH + _dt.timedelta(milliseconds=T0_MS)),
              matched_date=(core._EPOCH + _dt.timedelta(milliseconds=T0_MS + 500)) if (not isinstance(size_matched, (int, float)) or size_matched) else None,
              cancelled_date=None, lapsed_date=None,
              regulator_auth_code=None, regulator_code=None)


def current_orders_event(client, orders):
    from flumine.events import events
    return events.CurrentOrdersEvent([NS(client=client, orders=list(orders), market_id=MID, streaming_update=None)])
