"""C13 Strategies are isolated from each other and from callback errors"""
from symx.run import Harness
from flumine import config
from flumine.events import events
from flumine.exceptions import FlumineException
from flumine.markets.middleware import Middleware
from flumine.order.order import OrderStatus
from . import common as cm
from . import lifecycle as lc
from . import simstate as ss

S = OrderStatus
LEVELS = [1.5, 2.0]


def _world(c, spec, with_b, b_first):
    """one framework instance processing the given traded-volume update; returns A's observable ledger"""
    names = (["B", "A"] if b_first else ["A", "B"]) if with_b else ["A"]
    fl, (client,), strategies = cm.new_sim(n_strategies=len(names))
    by = dict(zip(names, strategies))
    mw = fl._market_middleware[0]
    bk1 = cm.book([cm.runner(1, tv=[{"price": p, "size": x} for p, x in spec["old"].items()]), cm.runner(2)], version=7)
    market = cm.add_market(fl, bk1)
    mw(market)
    made = {}
    for nm in names:  # blotter insertion order follows the registration order too
        for j, od in enumerate(spec[nm]):
            o = cm.mk_limit(by[nm], od["side"], od["price"], od["size"], persistence="LAPSE")
            cm.place_resting(fl, market, by[nm], o, 100 + len(made), status=S.EXECUTABLE)
            o.simulated.market_version = 7
            o.simulated._piq = od["piq"]
            made[(nm, j)] = o
    bk2 = cm.book([cm.runner(1, tv=[{"price": p, "size": x} for p, x in spec["new"].items()]), cm.runner(2)], version=7, pt_ms=cm.T0_MS + 1000)
    market(bk2)
    mw(market)
    fl._process_simulated_orders(market)
    out = []
    for j, od in enumerate(spec["A"]):
        o = made[("A", j)]
        s = o.simulated
        out.append(dict(matched=s.size_matched, remaining=s.size_remaining, nfrag=len(s.matched), piq=s._piq, status=o.status,
                        frags=[(f[0], f[1], f[2]) for f in s.matched], avg=s.average_price_matched if s.matched else 0))
    return out


def h13a(c, na=1, nb=1):
    """two worlds over the same symbolic update and the same symbolic resting orders of strategy A: alone, and alongside a
    strategy B with arbitrary resting orders on the same runner (both registration orders): A's ledger is identical"""
    with cm.config_set(simulated=True, simulated_strategy_isolation=True):
        spec = {"old": {}, "new": {}, "A": [], "B": []}
        for i, tp in enumerate(LEVELS):
            if c.choose("old%d_present" % i, [True, False]):
                spec["old"][tp] = c.cents("old%d" % i, 0, 2000000)
            spec["new"][tp] = c.cents("new%d" % i, 0, 2000000)
        for nm, n in (("A", na), ("B", nb)):
            for j in range(n):
                spec[nm].append(dict(side=c.choose("%s%d_side" % (nm, j), ["BACK", "LAY"]), price=c.choose("%s%d_price" % (nm, j), [1.5, 2.0, 2.5]),
                                     size=c.cents("%s%d_size" % (nm, j), 1, 1000000), piq=c.cents("%s%d_piq" % (nm, j), 0, 1000000)))
        with c.guard("world-alone"):
            alone = _world(c, spec, False, False)
        b_first = c.choose("b_registered_first", [False, True])
        with c.guard("world-with-b"):
            both = _world(c, spec, True, b_first)
        for j, (x, y) in enumerate(zip(alone, both)):
            c.ob("A%d.matched-identical" % j, x["matched"] == y["matched"])
            c.ob("A%d.remaining-identical" % j, x["remaining"] == y["remaining"])
            c.ob("A%d.fragment-count-identical" % j, x["nfrag"] == y["nfrag"])
            c.ob("A%d.queue-identical" % j, x["piq"] == y["piq"])
            c.ob("A%d.status-identical" % j, x["status"] == y["status"])
            if x["nfrag"] == y["nfrag"]:
                for k, (f, g) in enumerate(zip(x["frags"], y["frags"])):
                    c.ob("A%d.fragment%d-identical" % (j, k), c.And(f[0] == g[0], f[1] == g[1], f[2] == g[2]))
            c.observe("A%d.matched" % j, x["matched"])
            if c.is_true(x["matched"] > 0):
                c.cover("A-filled")
        c.cover("worlds")


class Boom(Middleware):
    def __init__(self, rec, fail_at, exc):
        self.rec, self.fail_at, self.exc = rec, fail_at, exc

    def __call__(self, market):
        self.rec.append(("middleware", market.market_id, self.rec_k[0]))
        if self.fail_at == self.rec_k[0]:
            raise self.exc("boom")


CALLBACKS = ["check_market_book", "process_market_book", "process_new_market", "process_orders", "process_raw_data", "check_sports_data",
             "process_sports_data", "middleware", "custom_event", "process_raw_data_no_id"]


def h13b(c, U=2):
    """an exception raised at a symbolic (strategy, callback kind, update index) with raise_errors off: every other strategy
    still receives every update exactly once, middleware runs before strategies"""
    with cm.config_set(simulated=False, raise_errors=False):
        cb = c.choose("failing_callback", CALLBACKS)
        who = c.choose("failing_strategy", [0, 1, 2])
        when = c.choose("failing_update", list(range(U)))
        exc = c.choose("exception", [ValueError, FlumineException])
        c.tag("callback", cb)
        rec = []
        k_box = [0]

        def mk(i, name, ret=None):
            def f(strategy, *a):
                rec.append((name, i, k_box[0]))
                if i == who and name == cb.replace("_no_id", "") and k_box[0] == when:
                    raise exc("boom")
                return ret
            return f

        hooks = [dict(check_market_book=mk(i, "check_market_book", True), process_market_book=mk(i, "process_market_book"),
                      process_new_market=mk(i, "process_new_market"), process_orders=mk(i, "process_orders")) for i in range(3)]
        fl, client, strategies = cm.new_live(n_strategies=3, hooks=hooks)
        for i, s in enumerate(strategies):
            s.process_raw_data = (lambda i_: (lambda clk, pt, datum: mk(i_, "process_raw_data")(None)))(i)
            s.check_sports_data = (lambda i_: (lambda market, sd: mk(i_, "check_sports_data", True)(None)))(i)
            s.process_sports_data = (lambda i_: (lambda market, sd: mk(i_, "process_sports_data")(None)))(i)
        boom = Boom(rec, when if cb == "middleware" else None, exc)
        boom.rec_k = k_box
        fl.add_market_middleware(boom)
        escaped = None
        for k in range(U):
            k_box[0] = k
            bk = cm.book([cm.runner(1)], version=7 + k, pt_ms=cm.T0_MS + 1000 * k)
            bk.streaming_snap = True
            try:
                fl._process_market_books(events.MarketBookEvent([bk]))
                market = fl.markets.markets[cm.MID]
                if k == 0:
                    for i, s in enumerate(strategies):
                        o = cm.mk_limit(s, "BACK", 2.0, 2.0)
                        o.update_client(client)
                        market.blotter[o.id] = o
                fl._process_current_orders(events.CurrentOrdersEvent([]))
                datum = {"id": cm.MID, "rc": []} if cb != "process_raw_data_no_id" else {"rc": [{"mid": cm.MID}]}
                fl._process_raw_data(events.RawDataEvent((cm.STREAM_ID, "clk", 123, [datum])))
                sd = cm.NS(market_id=cm.MID, streaming_unique_id=cm.STREAM_ID)
                fl._process_sports_data(events.SportsDataEvent([sd]))

                def custom(fl_, ev):
                    rec.append(("custom_event", -1, k_box[0]))
                    if cb == "custom_event" and k_box[0] == when:
                        raise exc("boom")
                fl._process_custom_event(events.CustomEvent(None, custom))
            except Exception as e:  # noqa
                escaped = e
                break
        c.ob("no-exception-escapes-the-framework", escaped is None, escaped=repr(escaped))
        if escaped is None:
            for k in range(U):
                for i in range(3):
                    for name in ("check_market_book", "process_orders", "process_raw_data", "check_sports_data"):
                        n = len([1 for r in rec if r == (name, i, k)])
                        c.ob("strategy%d.%s.exactly-once-per-update" % (i, name), n == 1, got=n, update=k)
                    failing_here = (i == who and k == when)
                    for name, gate in (("process_market_book", "check_market_book"), ("process_sports_data", "check_sports_data")):
                        n = len([1 for r in rec if r == (name, i, k)])
                        want = 0 if (failing_here and cb == gate) else 1
                        c.ob("strategy%d.%s.once-when-check-passes" % (i, name), n == want, got=n, update=k)
                n_new = [len([1 for r in rec if r == ("process_new_market", i, 0)]) for i in range(3)]
                c.ob("process_new_market.once-each", n_new == [1, 1, 1])
                # middleware precedes the strategies of the same update
                idx_mw = [j for j, r in enumerate(rec) if r == ("middleware", cm.MID, k)]
                idx_st = [j for j, r in enumerate(rec) if r[0] == "check_market_book" and r[2] == k]
                c.ob("middleware-once-and-before-strategies", len(idx_mw) == 1 and idx_st and idx_mw[0] < min(idx_st))
                c.ob("custom-event-callback-once", len([1 for r in rec if r == ("custom_event", -1, k)]) == 1)
        c.cover("injected")


KW = [{}, {"inplay": None}, {"inplay": False}, {"inplay": True}, {"seconds_to_start": 0}, {"seconds_to_start": 600}, {"max_inplay_seconds": 0},
      {"max_inplay_seconds": 300}, {"inplay": False, "seconds_to_start": 600}]


def h13c(c):
    """stream sharing between strategies: two strategies on the same market file only share a historical stream (and therefore a
    listener filter) when their listener filters mean the same; otherwise one strategy's data would be filtered by the other's
    settings and its results would depend on who registered first"""
    with cm.config_set(simulated=True):
        fl, (client,), strategies = cm.new_sim(n_strategies=2)
        ka = dict(c.choose("kwargs_a", KW))
        kb = dict(c.choose("kwargs_b", KW))
        ep_a = c.choose("event_processing_a", [False, True])
        ep_b = c.choose("event_processing_b", [False, True])
        md = cm.NS(event_id="30000001", market_type="WIN", country_code="GB")
        groups = {"none": {}, "event-mapped": {"30000001": "G", "30000002": "G"}, "other-events-only": {"30000002": "G"}}[c.choose("event_groups", ["none", "event-mapped", "other-events-only"])]
        with c.guard("add_historical_stream"):
            sa = fl.streams.add_historical_stream(strategies[0], "/data/1.100000001", md, ep_a, groups, **ka)
            sb = fl.streams.add_historical_stream(strategies[1], "/data/1.100000001", md, ep_b, groups, **kb)
        for st, ep in ((sa, ep_a), (sb, ep_b)):
            # markets of one event are replayed together: the event's group, its own id when no group is given for it; none without event processing
            c.ob("stream-event-group", st.event_group == ((groups.get("30000001", "30000001")) if ep else None), got=str(st.event_group), event_processing=ep)
        norm = lambda k: {x: v for x, v in k.items() if v is not None}  # noqa: E731
        same_meaning = norm(ka) == norm(kb) and ep_a == ep_b
        if not same_meaning:
            c.ob("different-filters=>separate-streams", sa is not sb, a=str(ka), b=str(kb))
            c.cover("separate")
        else:
            c.ob("shared-stream-has-the-requested-filter", sa is not sb or norm(sa.listener_kwargs) == norm(ka))
            c.cover("may-share")
        for st, k in ((sa, ka), (sb, kb)):
            c.ob("stream-carries-its-strategy-filter", norm(st.listener_kwargs) == norm(k), got=str(st.listener_kwargs), want=str(k))


def h13f(c):
    """stream sharing in live / paper mode: two strategies share a market stream (connection, conflation, snap interval) only when stream
    class, market filter, data filter, streaming timeout and conflation are all the same; otherwise what one strategy receives (and when)
    would depend on who registered first"""
    with cm.config_set(simulated=False):
        fl, client, _ = cm.new_live(n_strategies=0)
        opts = dict(market_filter=[{"marketIds": ["1.1"]}, {"marketIds": ["1.2"]}], market_data_filter=[{"fields": ["EX_BEST_OFFERS"]}, {"fields": ["EX_ALL_OFFERS"]}],
                    streaming_timeout=[None, 2.0, 5], conflate_ms=[None, 50])
        cfg = []
        for nm in ("a", "b"):
            cfg.append({k: c.choose("%s_%s" % (nm, k), list(range(len(v)))) for k, v in opts.items()})
        strategies = []
        for i, cf in enumerate(cfg):
            st = cm.RecordingStrategy(name="s%d" % i, **{k: opts[k][j] for k, j in cf.items()})
            with c.guard("add_stream"):
                fl.streams.add_stream(st)
            strategies.append(st)
        sa, sb = strategies[0].streams, strategies[1].streams
        c.ob("one-stream-each", len(sa) == 1 and len(sb) == 1)
        if len(sa) == 1 and len(sb) == 1:
            same = cfg[0] == cfg[1]
            if same:
                c.cover("may-share")
            else:
                c.ob("different-settings=>separate-streams", sa[0] is not sb[0], a=str(cfg[0]), b=str(cfg[1]))
                c.cover("separate")
            for st, cf in zip((sa[0], sb[0]), cfg):
                c.ob("stream-carries-its-strategy-settings", st.market_filter == opts["market_filter"][cf["market_filter"]] and
                     st.market_data_filter == opts["market_data_filter"][cf["market_data_filter"]] and st.streaming_timeout == opts["streaming_timeout"][cf["streaming_timeout"]]
                     and st.conflate_ms == opts["conflate_ms"][cf["conflate_ms"]], settings=str(cf))


def h13g(c):
    """real FlumineSimulation.run() over two market files (C14 world, symbolic publish times and event grouping): whether a strategy's
    request on one market takes effect does not depend on another market of the run ending or closing while it is in flight"""
    from .c14 import h14a
    from .c06 import _Only
    h14a(_Only(c, ("request-takes-effect", "request-not-executed-on-another", "no-exception", "every-update-delivered")), n_streams=2, lengths=(2, 3), orders=True, closing=True)


def h13h(c, U=3):
    """loop level (C07 world): a strategy callback raises inside SimulatedDateTime.real_time(); the framework contains the error and the run
    stays on the simulated clock, so requests (of any strategy) still take effect when they are due and callbacks still see publish times"""
    from .c07 import h07
    from .c06 import _Only
    h07(_Only(c, ("strategy-clock=publish-time", "executed-at-first-due-update", "never-due", "no-exception")), U=U, R=1, real_time_error=True)


def h13d(c, U=3):
    """loop level (C07 world, two requests queued together): each request takes effect at its own first due update whatever other
    packages share the simulation's pending queue - a strategy's cancel is not held up by someone else's slower placement"""
    from .c07 import h07
    from .c06 import _Only
    h07(_Only(c, ("executed-at-first-due-update", "never-due", "executed-at-most-once", "no-exception")), U=U, R=2)


def _loop_world(c, spec, with_b, b_first, U):
    """one FlumineSimulation run over U updates through the real _process_market_books (zero latency); returns what strategy A
    observed (callbacks with their arguments' state) and the final state of its orders"""
    names = (["B", "A"] if b_first else ["A", "B"]) if with_b else ["A"]
    seen = []
    box = {"k": 0}
    orders = {"A": [], "B": []}

    def mk_hooks(nm):
        def pmb(strategy, market, market_book):
            k = box["k"]
            if nm == "A":
                seen.append(("process_market_book", k, len(market.blotter.strategy_orders(strategy))))
            plan = spec[nm]
            if k == 0 and plan["action"] != "none":
                o = cm.mk_limit(strategy, "BACK", 1.5 if plan["action"] == "cross" else 3.0, plan["size"], selection_id=plan["selection"])
                if plan["action"] == "raise-inside-transaction":
                    orders[nm].append(o)
                    with market.transaction() as t:
                        t.place_order(o)
                        raise ValueError("strategy bug inside the transaction block")
                market.place_order(o)
                orders[nm].append(o)

        def po(strategy, market, os_):
            if nm == "A":
                seen.append(("process_orders", box["k"], [(x.status.name, x.size_matched, x.size_remaining) for x in os_]))
        return dict(process_market_book=pmb, process_orders=po)

    fl, (client,), strategies = cm.new_sim(n_strategies=len(names), hooks=[mk_hooks(nm) for nm in names],
                                           strategy_kwargs=dict(max_order_exposure=None, max_selection_exposure=None, max_live_trade_count=10))
    with fl.simulated_datetime:
        for k in range(U):
            box["k"] = k
            # (from the third book on the back side has moved up through the resting orders' price: only matters in available-prices mode)
            bp = 2.0 if k < 2 or not spec.get("cross") else 3.5
            bk = cm.book([cm.runner(1, atb=[{"price": bp, "size": spec["atb"]}], atl=[{"price": 4.0, "size": 50.0}]),
                          cm.runner(2, atb=[{"price": bp, "size": spec["atb"]}], atl=[{"price": 4.0, "size": 50.0}])], version=7, pt_ms=cm.T0_MS + 1000 * k)
            fl._process_market_books(events.MarketBookEvent([bk]))
    market = fl.markets.markets[cm.MID]
    final = [(o.status.name if o.status else None, o.size_matched, o.size_remaining, o.bet_id is not None) for o in orders["A"]]
    return dict(seen=seen, final=final, fl=fl, market=market, strategies=dict(zip(names, strategies)), orders=orders)


def h13e(c, U=3):
    """loop level, two worlds over the same symbolic run: strategy A alone and alongside a strategy B (both registration orders): what A
    is told (every callback, its order of delivery, the order states it is shown) and what becomes of its orders is identical;
    an exception raised inside a `with market.transaction()` block of a strategy is contained and leaves no order orphaned"""
    avail = c.choose("simulation_available_prices", [False, True])
    with cm.config_set(simulated=True, place_latency=0.0, cancel_latency=0.0, raise_errors=False, simulation_available_prices=avail):
        spec = {"atb": c.cents("atb_size", 1, 100000), "cross": avail}
        spec["A"] = dict(action=c.choose("A_action", ["cross", "rest", "raise-inside-transaction", "none"]), size=c.cents("A_size", 200, 100000), selection=1)
        spec["B"] = dict(action=c.choose("B_action", ["none", "rest", "cross", "raise-inside-transaction"]), size=c.cents("B_size", 200, 100000),
                         selection=c.choose("B_selection", [1, 2]))
        with c.guard("world-alone"):
            alone = _loop_world(c, spec, False, False, U)
        b_first = c.choose("b_registered_first", [False, True])
        with c.guard("world-with-b"):
            both = _loop_world(c, spec, True, b_first, U)
        c.ob("A.callbacks-identical", len(alone["seen"]) == len(both["seen"]) and all(x[:2] == y[:2] for x, y in zip(alone["seen"], both["seen"])),
             alone=str([x[:2] for x in alone["seen"]]), together=str([x[:2] for x in both["seen"]]))
        if len(alone["seen"]) == len(both["seen"]):
            for x, y in zip(alone["seen"], both["seen"]):
                if x[0] == "process_orders" and len(x[2]) == len(y[2]):
                    for (s1, m1, r1), (s2, m2, r2) in zip(x[2], y[2]):
                        c.ob("A.update%d.orders-shown-identical" % x[1], c.And(s1 == s2, m1 == m2, r1 == r2))
                else:
                    c.ob("A.update%d.%s-argument-identical" % (x[1], x[0]), (len(x[2]) == len(y[2])) if x[0] == "process_orders" else x[2] == y[2])
        c.ob("A.final-order-count-identical", len(alone["final"]) == len(both["final"]))
        for (s1, m1, r1, b1), (s2, m2, r2, b2) in zip(alone["final"], both["final"]):
            c.ob("A.final-order-state-identical", c.And(s1 == s2, m1 == m2, r1 == r2, b1 == b2))
        # order state stays consistent after a contained exception: nothing accepted is left pending without a request in flight
        for w, nm in ((alone, "alone"), (both, "together")):
            inflight = [o for p in w["fl"].handler_queue for o in p._orders]
            for o in w["market"].blotter:
                c.ob("%s.no-orphaned-pending-order" % nm, not (o.status == S.PENDING and not any(x is o for x in inflight)), strategy=o.trade.strategy.name)
            for st in w["strategies"].values():
                lc.recount_runner_context(c, st, w["market"], tag=nm)
        if spec["A"]["action"] == "raise-inside-transaction" or spec["B"]["action"] == "raise-inside-transaction":
            c.cover("exception-in-transaction-block")
        c.cover("worlds")


OUT = ["strategies sharing mutable Python state by other means", "more than 2 orders per strategy / 2 traded levels (H13a)", "more than U updates x 3 strategies (H13b)"]
HARNESSES = [
    Harness("H13a", h13a, quick=dict(na=1, nb=1), thorough=dict(na=2, nb=1), pattern="P4 relational (two worlds, same symbolic inputs)", requires=["worlds", "A-filled"],
            outside=OUT, max_paths=(400000, 4000000), wall_s=(300, 3000)),
    Harness("H13e", h13e, quick=dict(U=3), thorough=dict(U=4), pattern="P4 relational at loop level + P5 (exception inside a transaction block)",
            requires=["worlds", "exception-in-transaction-block"], outside=OUT, selfcheck=False),
    Harness("H13d", h13d, quick=dict(U=3), thorough=dict(U=4), pattern="P3 with symbolic time", requires=["run", "executed"], outside=OUT, selfcheck=False),
    Harness("H13c", h13c, pattern="exhaustive choice product (structural)", requires=["separate", "may-share"], outside=OUT, selfcheck=False),
    Harness("H13g", h13g, pattern="P1 + P3 (requests in flight across stream ends)", requires=["run", "event-group", "request-executed"], outside=OUT, selfcheck=False),
    Harness("H13h", h13h, quick=dict(U=3), thorough=dict(U=4), pattern="P3 with symbolic time + P5", requires=["run", "executed"], outside=OUT, selfcheck=False),
    Harness("H13f", h13f, pattern="exhaustive choice product (structural)", requires=["separate", "may-share"], outside=OUT, selfcheck=False),
    Harness("H13b", h13b, quick=dict(U=2), thorough=dict(U=3), pattern="P5 fault schedule as a variable", requires=["injected"], outside=OUT, selfcheck=False),
]
META = {"assumptions": ["simulated_strategy_isolation = True (the default) for H13a"]}
