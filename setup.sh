#!/bin/sh
# Build the checker environment offline: an overlay venv on top of /venv (which holds flumine's
# dependencies and imports flumine from /repo) plus z3-solver from the local wheelhouse.
set -e
VERIF="$(cd "$(dirname "$0")" && pwd)"
VENV="$VERIF/.venv"
if [ -x "$VENV/bin/python" ] && "$VENV/bin/python" -c "import z3, cvc5, betfairlightweight" 2>/dev/null; then
  exit 0
fi
rm -rf "$VENV"
/venv/bin/python -m venv "$VENV"
SP="$VENV/lib/python3.12/site-packages"
printf '/venv/lib/python3.12/site-packages\n' > "$SP/_overlay.pth"
PIP_NO_INDEX=1 "$VENV/bin/python" -m pip install -q --no-index --find-links /opt/veriftools/wheels z3-solver
# cvc5 answers the string queries of C19 (z3 is the fallback if this wheel cannot be installed)
PIP_NO_INDEX=1 "$VENV/bin/python" -m pip install -q --no-index --find-links /opt/veriftools/wheels cvc5 || echo "cvc5 wheel not installed: C19 falls back to z3"
"$VENV/bin/python" -c "import z3, betfairlightweight; print('verif venv ready: z3', z3.get_version_string())"
