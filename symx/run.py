"""exploration driver: parallel DFS by re-execution, obligation checking, replay, evidence"""
import os
import re
import sys
import json
import time
import random
import hashlib
import traceback
import collections
import multiprocessing as mp

import z3

from . import core, shims
from .core import (Ctx, ConcreteCtx, Infeasible, Abort, Concretization, GuardTripped, HarnessError, SymBool, Sym,
                   model_values, describe_values, eval_value)

VERIF = os.path.dirname(os.path.dirname(os.path.abspath(__file__)))
REPO = os.environ.get("VERIF_REPO", "/repo")


class Harness:
    def __init__(self, name, fn, quick=None, thorough=None, requires=(), max_paths=(60000, 1000000), timeout_ms=(20000, 60000),
                 wall_s=(300, 3000), clock_modules=(), pattern="", doc="", outside=(), assumptions=(), selfcheck=True,
                 merge_minmax=True, allow_unconfirmed=False, tiers=("quick", "thorough")):
        self.name = name
        self.tiers = tuple(tiers)
        self.fn = fn
        self.params = {"quick": quick or {}, "thorough": thorough if thorough is not None else (quick or {})}
        self.requires = list(requires)
        self.max_paths = dict(zip(("quick", "thorough"), max_paths))
        self.timeout_ms = dict(zip(("quick", "thorough"), timeout_ms))
        self.wall_s = dict(zip(("quick", "thorough"), wall_s))
        self.clock_modules = tuple(clock_modules)
        self.pattern = pattern
        self.doc = doc or (fn.__doc__ or "").strip()
        self.outside = list(outside)
        self.assumptions = list(assumptions)
        self.selfcheck = selfcheck
        self.merge_minmax = merge_minmax
        self.allow_unconfirmed = allow_unconfirmed


# ------------------------------------------------------------------------------------------------
# function coverage (which flumine functions actually ran under symbolic inputs)
# ------------------------------------------------------------------------------------------------
_seen_funcs = set()
_TOOL = 3


def _start_monitoring():
    mon = getattr(sys, "monitoring", None)
    if mon is None:
        return
    try:
        mon.use_tool_id(_TOOL, "symx")
    except ValueError:
        return
    root = os.path.join(os.path.realpath(REPO), "flumine") + os.sep

    def on_start(code, offset):
        fn = code.co_filename
        if fn.startswith(root):
            _seen_funcs.add("%s:%s" % (fn[len(root) - len("flumine/"):], code.co_qualname))
        return mon.DISABLE

    mon.register_callback(_TOOL, mon.events.PY_START, on_start)
    mon.set_events(_TOOL, mon.events.PY_START)


# ------------------------------------------------------------------------------------------------
# single path
# ------------------------------------------------------------------------------------------------
def _site(tb):
    """innermost frame inside the repo (or harness) for a traceback"""
    frames = traceback.extract_tb(tb)
    for fr in reversed(frames):
        if "/symx/" not in fr.filename:
            return "%s:%d %s" % (fr.filename, fr.lineno, fr.name)
    fr = frames[-1]
    return "%s:%d %s" % (fr.filename, fr.lineno, fr.name)


def run_concrete(h, params, values):
    """re-run the harness on the untouched code with plain python values"""
    c = ConcreteCtx(values)
    core._set_ctx(None)
    res = {"status": "ok", "exception": None}
    try:
        with shims.env_stubs(), shims.clock(h.clock_modules):
            h.fn(c, **params)
    except Infeasible:
        res["status"] = "infeasible"
    except GuardTripped:
        pass
    except Exception as e:  # noqa
        res["status"] = "exception"
        res["exception"] = "%s: %s @ %s" % (type(e).__name__, e, _site(e.__traceback__))
    res["obligations"] = c.obligations
    res["observations"] = c.observations
    res["covers"] = c.covers
    res["tags"] = c.tags
    return res


def _json_safe(v):
    if isinstance(v, (int, float, str, bool)) or v is None:
        return v
    if isinstance(v, (list, tuple)):
        return [_json_safe(x) for x in v]
    if isinstance(v, dict):
        return {str(k): _json_safe(x) for k, x in v.items()}
    return repr(v)


def _close_enough(a, b):
    if isinstance(a, bool) or isinstance(b, bool):
        return bool(a) == bool(b)
    if isinstance(a, (int, float)) and isinstance(b, (int, float)):
        return abs(a - b) <= 1e-6 + 1e-9 * max(abs(a), abs(b))
    if isinstance(a, (list, tuple)) and isinstance(b, (list, tuple)):
        return len(a) == len(b) and all(_close_enough(x, y) for x, y in zip(a, b))
    import datetime as _dt
    if isinstance(b, _dt.datetime) and isinstance(a, int):
        d = b - core._EPOCH
        return a == d.days * 86400 * 10**6 + d.seconds * 10**6 + d.microseconds
    if hasattr(a, "value") and hasattr(b, "value"):
        return a == b
    return a == b


def run_path(h, params, prefix, timeout_ms, stats, viol_budget, selfcheck):
    """execute one path symbolically, check its obligations; returns a result dict"""
    c = Ctx(prefix, timeout_ms=timeout_ms, stats=stats)
    core._set_ctx(c)
    out = {"status": "ok", "pending": None, "obligations": 0, "discharged": 0, "nontrivial": 0, "violations": [],
           "unconfirmed": [], "inconclusive": [], "covers": None, "selfcheck": None, "sample": None, "reach": {}}
    try:
        with shims.env_stubs(), shims.installed(h.clock_modules, merge_minmax=h.merge_minmax) as used:
            out["shims"] = used + ["time.sleep=no-op in orderpackage/simulatedexecution (both modes)"]
            try:
                h.fn(c, **params)
            except GuardTripped:
                pass
    except Infeasible:
        out["status"] = "infeasible"
    except Abort as e:
        out["status"] = "abort"
        out["inconclusive"].append("abort: %s" % e)
    except Concretization as e:
        out["status"] = "concretization"
        out["inconclusive"].append("concretization: %s @ %s" % (e, _site(e.__traceback__)))
    except RecursionError as e:
        out["status"] = "harness-error"
        out["inconclusive"].append("recursion @ %s" % _site(e.__traceback__))
    except Exception as e:  # noqa
        out["status"] = "harness-error"
        out["inconclusive"].append("harness exception %s: %s @ %s" % (type(e).__name__, e, _site(e.__traceback__)))
    finally:
        core._set_ctx(c)
    out["pending"] = c.pending
    out["decisions"] = len(c.trace)
    out["covers"] = list(c.covers)
    if out["status"] not in ("ok",):
        return out

    if c.obligations and c.check() != "sat":
        out["status"] = "harness-error"
        out["inconclusive"].append("path condition not satisfiable at end of path (engine error or solver unknown)")
        return out
    # ---- obligations ----
    proved = {}  # simplified condition (z3 AST id, term kept alive) already shown unsat-negated on this path
    for name, cond, tags in c.obligations:
        out["obligations"] += 1
        rc = out["reach"].setdefault(name, [0, 0])
        rc[0] += 1
        cand = None
        if isinstance(cond, (SymBool, Sym)):
            ce = core.lift_bool(cond)
            cs = z3.simplify(ce)
            if z3.is_true(cs):
                out["discharged"] += 1
                continue
            if cs.get_id() in proved:
                out["discharged"] += 1
                out["nontrivial"] += 1
                continue
            r = c.check(z3.Not(ce), label="ob:" + name)
            if r == "unsat":
                out["discharged"] += 1
                out["nontrivial"] += 1
                proved[cs.get_id()] = cs
                continue
            if r == "unknown":
                out["inconclusive"].append("solver unknown on obligation %s" % name)
                continue
            cand = ce
        else:
            if cond:
                out["discharged"] += 1
                continue
            r = c.check()
            if r == "unknown":
                out["inconclusive"].append("solver unknown on path of failed obligation %s" % name)
                continue
            if r == "unsat":
                out["discharged"] += 1
                continue
            cand = False
        # candidate counterexample: replay on the untouched code
        key = (h.name, name)
        if viol_budget.get(key, 0) >= 3:
            out["violations"].append({"harness": h.name, "obligation": name, "tags": _json_safe(tags), "dedup": True})
            continue
        confirmed = None
        tried = []
        extra = [] if cand is False else [z3.Not(cand)]
        for e_ in extra:
            c._activate(e_)
        tie_only = False
        interior = list(c.margins)
        for attempt in range(5):
            if attempt == 0 and interior:
                # first choice: a model in the interior of the path (strict versions of the decided comparisons, no rounding
                # tie): there IEEE floats and the exact-decimal model agree, so the replay is meaningful
                pref = extra + interior + ([z3.Not(z3.Or(c.ties))] if c.ties else [])
                r = c.check(*pref)
                if r != "sat":
                    r = c.check(*extra)
            elif attempt == 1 and c.ties:
                # refinement: exclude exact rounding ties (DESIGN 2.4.2)
                noties = z3.Not(z3.Or(c.ties))
                r = c.check(*(extra + [noties]))
                if r == "sat":
                    extra.append(noties)
                else:
                    if r == "unsat":
                        tie_only = True  # the candidate exists only where some round() sits exactly on a tie
                    r = c.check(*extra)
            else:
                r = c.check(*extra)
            if r != "sat":
                break
            m = c.solver.model()
            values = model_values(c, m)
            tried.append(values)
            rep = run_concrete(h, params, values)
            core._set_ctx(c)
            got = [ok for (n, ok, t) in rep["obligations"] if n == name]
            if got and not all(got):
                confirmed = {"harness": h.name, "obligation": name, "tags": _json_safe(tags), "values": values,
                             "inputs": describe_values(c, values), "params": params,
                             "concrete_tags": _json_safe(rep["tags"]),
                             "concrete_observations": _json_safe(rep["observations"])[:40]}
                break
            # block this valuation of the discrete inputs and try another model
            blk = []
            for nm, (kind, var, meta) in c.inputs.items():
                if kind != "real":
                    blk.append(var != m.eval(var, model_completion=True))
            if not blk:
                break
            extra.append(z3.Or(blk))
        if confirmed:
            viol_budget[key] = viol_budget.get(key, 0) + 1
            out["violations"].append(confirmed)
            rc[1] += 1
        elif tie_only and len(tried) >= 2:
            # satisfiable only at exact decimal rounding ties, where the relational round() admits both neighbours while the
            # real round() picks one; the tried tie models do not reproduce on the real code: not a violation
            out["discharged"] += 1
            out["tie_only"] = out.get("tie_only", 0) + 1
        else:
            out["unconfirmed"].append({"harness": h.name, "obligation": name, "tags": _json_safe(tags),
                                       "inputs": describe_values(c, tried[0]) if tried else None})

    out["nontrivial"] += getattr(c, "extra_nontrivial", 0)
    # a path reached through at least one two-sided (solver-decided) branch whose obligations all evaluated concretely
    out["forked_concrete"] = 1 if (out["obligations"] and out["nontrivial"] == 0 and any(t < 2 for t in c.trace)) else 0
    # ---- sample + concrete-equivalence self check ----
    if selfcheck and c.observations:
        for n_, v_ in c.observations:
            for x_ in (v_ if isinstance(v_, (list, tuple)) else [v_]):
                if isinstance(x_, (Sym, SymBool)):
                    c._activate(x_.e)
                elif isinstance(x_, core.SymEnum):
                    c._activate(x_.v)
                elif isinstance(x_, core.SymTime):
                    c._activate(x_.us)
        pref = list(c.margins) + ([z3.Not(z3.Or(c.ties))] if c.ties else [])
        r = c.check(*pref) if pref else c.check()
        if r != "sat" and pref:
            r = c.check(z3.Not(z3.Or(c.ties))) if c.ties else c.check()
        if r == "sat":
            m = c.solver.model()
            values = model_values(c, m)
            expect = [(n, eval_value(m, v)) for n, v in c.observations]
            rep = run_concrete(h, params, values)
            got = dict((n, v) for n, v in rep["observations"])
            bad = []
            for n, ev in expect:
                if ev is None:
                    continue
                if n not in got:
                    bad.append((n, ev, "<missing>"))
                elif not _close_enough(ev, got[n]):
                    bad.append((n, ev, got[n]))
            out["selfcheck"] = {"ok": not bad and rep["status"] in ("ok",), "bad": _json_safe(bad[:5]),
                                "status": rep["status"], "exception": rep["exception"],
                                "inputs": describe_values(c, values) if bad else None}
            out["sample"] = {"inputs": describe_values(c, values), "decisions": len(c.trace),
                             "obligations": [n for n, _, _ in c.obligations][:12], "covers": c.covers[:12],
                             "observed": _json_safe(expect[:8])}
    elif out["obligations"] and random.random() < 0.05:
        r = c.check()
        if r == "sat":
            m = c.solver.model()
            out["sample"] = {"inputs": describe_values(c, model_values(c, m)), "decisions": len(c.trace),
                             "obligations": [n for n, _, _ in c.obligations][:12], "covers": c.covers[:12]}
    return out


# ------------------------------------------------------------------------------------------------
# worker
# ------------------------------------------------------------------------------------------------
_H = {}


def _register(harnesses):
    for h in harnesses:
        _H[h.name] = h


def _work(task):
    hname, tier, prefixes, batch_paths, batch_s, selfcheck_rate, seed = task
    h = _H[hname]
    params = h.params[tier]
    stats = core.Stats()
    stack = list(prefixes)
    t0 = time.perf_counter()
    agg = {"paths": 0, "infeasible": 0, "obligations": 0, "discharged": 0, "nontrivial": 0, "violations": [],
           "unconfirmed": [], "inconclusive": [], "covers": collections.Counter(), "selfchecks": 0, "selfcheck_bad": [],
           "samples": [], "reach": {}, "decisions": 0, "shims": []}
    viol_budget = {}
    rnd = random.Random(seed ^ hash(tuple(prefixes[0])) if prefixes else seed)
    while stack and agg["paths"] + agg["infeasible"] < batch_paths and time.perf_counter() - t0 < batch_s:
        prefix = stack.pop()
        sc = h.selfcheck and rnd.random() < selfcheck_rate
        r = run_path(h, params, prefix, h.timeout_ms[tier], stats, viol_budget, sc)
        stack.extend(r["pending"] or [])
        if r["status"] == "infeasible":
            agg["infeasible"] += 1
            continue
        agg["paths"] += 1
        agg["decisions"] += r.get("decisions", 0)
        for k in ("obligations", "discharged", "nontrivial"):
            agg[k] += r[k]
        agg["forked_concrete"] = agg.get("forked_concrete", 0) + r.get("forked_concrete", 0)
        agg["violations"] += r["violations"]
        agg["tie_only"] = agg.get("tie_only", 0) + r.get("tie_only", 0)
        agg["unconfirmed"] += r["unconfirmed"]
        agg["inconclusive"] += r["inconclusive"]
        agg["covers"].update(r["covers"] or [])
        for n, (a, b) in r["reach"].items():
            x = agg["reach"].setdefault(n, [0, 0])
            x[0] += a
            x[1] += b
        if r.get("shims"):
            agg["shims"] = r["shims"]
        if r["selfcheck"] is not None:
            agg["selfchecks"] += 1
            if not r["selfcheck"]["ok"]:
                agg["selfcheck_bad"].append(r["selfcheck"])
        if r["sample"] is not None and len(agg["samples"]) < 2:
            agg["samples"].append(r["sample"])
    agg["leftover"] = stack
    agg["slow"] = sorted(stats.slow, reverse=True)[:10]
    agg["queries"] = stats.queries
    agg["solver_s"] = stats.solver_s
    agg["functions"] = sorted(_seen_funcs)
    agg["covers"] = dict(agg["covers"])
    return agg


def _worker_init(harness_module):
    _start_monitoring()
    import logging
    logging.disable(logging.CRITICAL)
    sys.setrecursionlimit(3000)
    z3.set_param("memory_max_size", 6000)


# ------------------------------------------------------------------------------------------------
# master
# ------------------------------------------------------------------------------------------------
def explore(h, tier, seed, pool, nworkers, log=print):
    t0 = time.time()
    pending = collections.deque([[]])
    inflight = []
    tot = {"paths": 0, "infeasible": 0, "obligations": 0, "discharged": 0, "nontrivial": 0, "violations": [],
           "unconfirmed": [], "inconclusive": [], "covers": collections.Counter(), "selfchecks": 0, "selfcheck_bad": [],
           "samples": [], "reach": {}, "decisions": 0, "queries": 0, "solver_s": 0.0, "functions": set(), "shims": []}
    max_paths = h.max_paths[tier]
    wall = h.wall_s[tier]
    selfcheck_rate = 0.03 if tier == "quick" else 0.05
    budget_hit = None
    last_log = t0
    while pending or inflight:
        # dispatch
        while pending and len(inflight) < nworkers * 2 and budget_hit is None:
            # small batches while the frontier is narrow, bigger later
            nb = 1 if len(pending) < nworkers * 2 else min(8, len(pending) // (nworkers * 2) + 1)
            pf = [pending.pop() for _ in range(min(nb, len(pending)))]
            bs = 2.0 if tot["paths"] < 200 else 6.0
            task = (h.name, tier, pf, 40, bs, 1.0 if tot["paths"] < 60 else selfcheck_rate, seed)
            inflight.append(pool.apply_async(_work, (task,)))
        if budget_hit is not None and not inflight:
            break
        # collect
        done = [a for a in inflight if a.ready()]
        if not done:
            time.sleep(0.01)
        for a in done:
            inflight.remove(a)
            r = a.get()
            for k in ("paths", "infeasible", "obligations", "discharged", "nontrivial", "selfchecks", "decisions", "queries"):
                tot[k] += r[k]
            tot["solver_s"] += r["solver_s"]
            tot["forked_concrete"] = tot.get("forked_concrete", 0) + r.get("forked_concrete", 0)
            tot["violations"] += r["violations"]
            tot["tie_only"] = tot.get("tie_only", 0) + r.get("tie_only", 0)
            tot["unconfirmed"] += r["unconfirmed"][:5]
            tot["inconclusive"] += r["inconclusive"][:5]
            tot["covers"].update(r["covers"])
            tot["selfcheck_bad"] += r["selfcheck_bad"]
            tot["functions"].update(r["functions"])
            tot.setdefault("slow", []).extend(r.get("slow", []))
            if r["shims"]:
                tot["shims"] = r["shims"]
            for n, (x, y) in r["reach"].items():
                z = tot["reach"].setdefault(n, [0, 0])
                z[0] += x
                z[1] += y
            if len(tot["samples"]) < 6:
                tot["samples"] += r["samples"][: 6 - len(tot["samples"])]
            if budget_hit is None:
                pending.extend(r["leftover"])
            elif r["leftover"]:
                tot["dropped"] = tot.get("dropped", 0) + len(r["leftover"])
        now = time.time()
        if budget_hit is None:
            if tot["paths"] >= max_paths:
                budget_hit = "path budget %d exhausted with %d prefixes pending" % (max_paths, len(pending))
            elif now - t0 > wall:
                budget_hit = "wall budget %ds exhausted with %d prefixes pending" % (wall, len(pending))
            if budget_hit:
                tot["dropped"] = tot.get("dropped", 0) + len(pending)
                pending.clear()
        if now - last_log > 20:
            last_log = now
            log("  .. %s: %d paths, %d pending, %d obligations, %d violations, %.0fs" % (
                h.name, tot["paths"], len(pending), tot["obligations"], len(tot["violations"]), now - t0))
    if budget_hit:
        tot["inconclusive"].append(budget_hit)
    tot["wall_s"] = time.time() - t0
    missing = [lab for lab in h.requires if tot["covers"].get(lab, 0) == 0]
    if missing:
        tot["inconclusive"].append("required witness labels never reached: %s" % missing)
    if tot["obligations"] == 0:
        tot["inconclusive"].append("no obligation was ever reached (vacuous harness)")
    tot["selfcheck_bad_n"] = len(tot["selfcheck_bad"])
    if tot["selfcheck_bad"] and (len(tot["selfcheck_bad"]) > 0.25 * tot["selfchecks"] or any(b.get("status") == "exception" for b in tot["selfcheck_bad"])):
        # a few disagreements are expected: the solver returns vertex models (e.g. exposure == limit exactly) where IEEE
        # floats and the exact-decimal model take different sides of a comparison (DESIGN 2.4.1); many = engine bug
        tot["inconclusive"].append("concrete-equivalence self-check mismatch (%d of %d)" % (len(tot["selfcheck_bad"]), tot["selfchecks"]))
    if tot["unconfirmed"] and not h.allow_unconfirmed:
        tot["inconclusive"].append("%d solver counterexample candidate(s) did not reproduce on the real code (model gap)" % len(tot["unconfirmed"]))
    return tot


# ------------------------------------------------------------------------------------------------
# known findings
# ------------------------------------------------------------------------------------------------
def load_known():
    p = os.path.join(VERIF, "known_findings.json")
    if not os.path.exists(p):
        return []
    return json.load(open(p)).get("findings", [])


def match_known(pid, v, known):
    for k in known:
        if k.get("property") != pid or k.get("harness") != v["harness"]:
            continue
        if not re.fullmatch(k.get("obligation", ".*"), v["obligation"]):
            continue
        tags = v.get("tags") or {}
        ok = True
        for kk, vv in (k.get("match") or {}).items():
            tv = str(tags.get(kk))
            if isinstance(vv, list):
                if tv not in [str(x) for x in vv]:
                    ok = False
            elif tv != str(vv):
                ok = False
        if ok:
            return k
    return None


# ------------------------------------------------------------------------------------------------
# property level driver
# ------------------------------------------------------------------------------------------------
def run_property(pid, harnesses, tier, seed, meta):
    t0 = time.time()
    _register(harnesses)
    nworkers = int(os.environ.get("VERIF_WORKERS", "0")) or min(16, os.cpu_count() or 4)
    ctxmp = mp.get_context("fork")
    known = load_known()
    results = {}
    with ctxmp.Pool(nworkers, initializer=_worker_init, initargs=(None,), maxtasksperchild=200) as pool:
        harnesses = [h for h in harnesses if tier in h.tiers]
        for h in harnesses:
            print("[%s] %s (%s) params=%s" % (pid, h.name, tier, h.params[tier]), flush=True)
            tot = explore(h, tier, seed, pool, nworkers)
            results[h.name] = tot
            print("[%s] %s: paths=%d infeasible=%d obligations=%d discharged=%d violations=%d unconfirmed=%d inconclusive=%d "
                  "queries=%d solver=%.1fs selfchecks=%d wall=%.1fs" % (
                      pid, h.name, tot["paths"], tot["infeasible"], tot["obligations"], tot["discharged"],
                      len(tot["violations"]), len(tot["unconfirmed"]), len(tot["inconclusive"]), tot["queries"],
                      tot["solver_s"], tot["selfchecks"], tot["wall_s"]), flush=True)
            if os.environ.get("VERIF_DEBUG"):
                agg = collections.Counter()
                for dt, r, lab in tot.get("slow", []):
                    agg[(lab, r)] += dt
                for (lab, r), dt in agg.most_common(12):
                    print("   SLOW: %.1fs %s %s" % (dt, r, lab), flush=True)
            for msg in tot["inconclusive"][:8]:
                print("   INCONCLUSIVE: %s" % msg, flush=True)
            for u in tot["unconfirmed"][:3]:
                print("   UNCONFIRMED: %s %s %s" % (u["obligation"], u.get("tags"), u.get("inputs")), flush=True)
            for b in tot["selfcheck_bad"][:3]:
                print("   SELFCHECK-MISMATCH: %s" % json.dumps(b)[:600], flush=True)

    # ---- classify violations ----
    new_viol, known_hit = [], collections.OrderedDict()
    replay_dir = os.environ.get("VERIF_REPLAY_DIR") or os.path.join(VERIF, "replays")
    os.makedirs(replay_dir, exist_ok=True)
    seen = set()
    for hname, tot in results.items():
        for v in tot["violations"]:
            k = match_known(pid, v, known)
            if k is not None:
                known_hit.setdefault(k["id"], [k, 0])
                known_hit[k["id"]][1] += 1
                continue
            sig = (v["harness"], v["obligation"], json.dumps(v.get("tags"), sort_keys=True))
            if v.get("dedup") or sig in seen:
                if sig not in seen and v.get("dedup"):
                    pass
                continue
            seen.add(sig)
            new_viol.append(v)
    for kid, (k, n) in known_hit.items():
        print("KNOWN-FINDING: property=%s %s [%s; %d occurrence(s)]" % (pid, k["summary"], kid, n), flush=True)
    n = 0
    for v in new_viol[: int(os.environ.get("VERIF_MAXVIOL", "20"))]:
        n += 1
        path = os.path.join(replay_dir, "%s-%d.json" % (pid, n))
        with open(path, "w") as f:
            json.dump({"property": pid, "tier": tier, **v}, f, indent=1, default=repr)
        print("VIOLATION property=%s replay=%s" % (pid, path), flush=True)
        print("   harness=%s obligation=%s tags=%s\n   inputs=%s" % (v["harness"], v["obligation"], v.get("tags"), v.get("inputs")), flush=True)
    inconclusive = [(hn, m) for hn, t in results.items() for m in t["inconclusive"]]

    # ---- evidence ----
    wall = time.time() - t0
    cov = {
        "explanation": "bounded symbolic execution of the real flumine code (operator-overloading proxies) + SMT (z3 %s); "
                       "every obligation is decided by the solver over all values on each explored path within the stated bounds; "
                       "counterexamples are replayed on the untouched code" % z3.get_version_string(),
        "harnesses": {},
        "functions_encoded": sorted(set().union(*[t["functions"] for t in results.values()])) if results else [],
        "evaluations": sum(t["obligations"] for t in results.values()),
        "distinct_nontrivial": sum(t["nontrivial"] + t.get("forked_concrete", 0) for t in results.values()),
        "nontrivial_unsat_verdicts": sum(t["nontrivial"] for t in results.values()),
        "paths_with_only_concrete_obligations_behind_solver_decided_branches": sum(t.get("forked_concrete", 0) for t in results.values()),
        "rule": "one case = one (harness, explored path, obligation); non-trivial = the obligation was not decided by term simplification "
                "alone but needed an unsat verdict from z3 under the path condition (nontrivial_unsat_verdicts), plus - for structural harnesses "
                "whose obligations evaluate to concrete booleans - each distinct path that was reached through at least one two-sided branch "
                "the solver found feasible on both sides; paths are distinct decision sequences",
        "obligations": sum(t["obligations"] for t in results.values()),
        "discharged": sum(t["discharged"] for t in results.values()),
        "paths": sum(t["paths"] for t in results.values()),
        "infeasible_paths_discarded": sum(t["infeasible"] for t in results.values()),
        "queries": sum(t["queries"] for t in results.values()),
        "solver_s": round(sum(t["solver_s"] for t in results.values()), 2),
        "traces_validated_against_impl": sum(t["selfchecks"] for t in results.values()),
        "inconclusive": ["%s: %s" % x for x in inconclusive][:30],
        "known_findings_hit": [{"id": kid, "occurrences": nn} for kid, (k, nn) in known_hit.items()],
        "samples": [],
        "exhaustive": False,
        "checker_cmd": "./check %s%s" % (pid, "" if tier == "quick" else " --tier thorough"),
        "trusted_base": ["z3 5.1.0", "CPython 3.12", "symx engine (/verif/symx)", "harness oracles (/verif/harness)"],
    }
    for h in harnesses:
        t = results[h.name]
        cov["harnesses"][h.name] = {
            "pattern": h.pattern, "doc": h.doc, "bounds": h.params[tier], "paths": t["paths"], "obligations": t["obligations"],
            "discharged": t["discharged"], "nontrivial_unsat": t["nontrivial"], "violations": len(t["violations"]),
            "queries": t["queries"], "solver_s": round(t["solver_s"], 2), "wall_s": round(t["wall_s"], 1),
            "witness_labels": dict(t["covers"]), "required_labels": h.requires,
            "obligation_reach": {k: v[0] for k, v in sorted(t["reach"].items())[:60]},
            "traces_validated_against_impl": t["selfchecks"], "outside_claim": h.outside, "shims": t["shims"],
            "selfcheck_boundary_disagreements": t.get("selfcheck_bad_n", 0),
            "tie_only_candidates_not_reproduced": t.get("tie_only", 0),
            "max_paths": h.max_paths[tier], "per_query_timeout_ms": h.timeout_ms[tier],
        }
        for s in t["samples"][:3]:
            cov["samples"].append({"harness": h.name, **s})
    if not cov["samples"]:
        cov["samples"].append({"note": "no sample captured"})
    ev = {
        "property_id": pid, "tier": tier, "seed": seed, "level": "other", "coverage": cov,
        "assumptions": meta.get("assumptions", []) + [a for h in harnesses for a in h.assumptions],
        "wall_s": round(wall, 2), "violations": len(new_viol),
    }
    ev_dir = os.environ.get("VERIF_EVIDENCE_DIR") or os.path.join(VERIF, "evidence")
    os.makedirs(ev_dir, exist_ok=True)
    with open(os.path.join(ev_dir, "%s.json" % pid), "w") as f:
        json.dump(ev, f, indent=1, default=repr)
    print("[%s] tier=%s paths=%d obligations=%d discharged=%d new-violations=%d known=%d inconclusive=%d wall=%.1fs" % (
        pid, tier, cov["paths"], cov["obligations"], cov["discharged"], len(new_viol), len(known_hit), len(inconclusive), wall), flush=True)
    if new_viol:
        return 1
    if inconclusive:
        print("[%s] INCONCLUSIVE (exit 2): the run is not a pass" % pid, flush=True)
        return 2
    return 0


def replay_file(path, harnesses):
    d = json.load(open(path))
    h = {x.name: x for x in harnesses}[d["harness"]]
    rep = run_concrete(h, d["params"], d["values"])
    print("replay %s harness=%s obligation=%s" % (path, d["harness"], d["obligation"]))
    print("  inputs: %s" % d.get("inputs"))
    print("  concrete status: %s %s" % (rep["status"], rep["exception"] or ""))
    for n, v in rep["observations"][:60]:
        print("  observed %s = %r" % (n, v))
    got = [ok for (n, ok, t) in rep["obligations"] if n == d["obligation"]]
    print("  tags: %s" % rep["tags"])
    if got and not all(got):
        print("VIOLATION property=%s replay=%s" % (d["property"], path))
        return 1
    print("  obligation holds on the current tree (not reproduced)")
    return 0
