from .core import *  # noqa
