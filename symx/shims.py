"""Engine shims: exact models of builtins / constants that Python proxies cannot intercept.
Installed as module-level names in the checker process only (symbolic mode), removed afterwards.
Complete list in DESIGN.md 2.5; each evidence file lists the ones its harness used."""
import sys
import builtins
import fractions
import decimal
import datetime as _dt
import contextlib

import z3

from . import core
from .core import Sym, SymBool, SymTime, lift, ite, Concretization

_b_min, _b_max, _b_float, _b_len, _b_range = builtins.min, builtins.max, builtins.float, builtins.len, builtins.range


def s_min(*a, **kw):
    xs = a[0] if len(a) == 1 else a
    if kw or not any(isinstance(x, Sym) for x in xs):
        return _b_min(*a, **kw)
    return core.smin(*xs)


def s_max(*a, **kw):
    xs = a[0] if len(a) == 1 else a
    if kw or not any(isinstance(x, Sym) for x in xs):
        return _b_max(*a, **kw)
    return core.smax(*xs)


class _FloatMeta(type):
    def __instancecheck__(cls, inst):
        return isinstance(inst, _b_float)


class s_float(metaclass=_FloatMeta):
    """float(x): identity on Sym (Python float is modelled as an exact decimal)"""

    def __new__(cls, x=0.0):
        if isinstance(x, Sym):
            return x
        return _b_float(x)


def make_as_dec(real_as_dec):
    def s_as_dec(value):
        # identity on Sym (a Sym already is the exact decimal); everything else goes through the real function
        if isinstance(value, Sym):
            return value
        return real_as_dec(value)
    return s_as_dec


class SymList:
    """a concrete list (price ladder) supporting symbolic membership / index / subscript.
    The live list is run-length compressed into arithmetic runs (lo, step, count); the
    compression is re-expanded and compared with the list on construction (loss-free)."""

    def __init__(self, data):
        self.data = list(data)
        fr = [fractions.Fraction(decimal.Decimal(repr(x))) if isinstance(x, _b_float) else fractions.Fraction(x) for x in self.data]
        runs = []  # (start index, lo, step, count)
        i = 0
        n = len(fr)
        while i < n:
            if i + 1 < n:
                step = fr[i + 1] - fr[i]
                j = i + 1
                while j + 1 < n and fr[j + 1] - fr[j] == step:
                    j += 1
                runs.append((i, fr[i], step, j - i + 1))
                i = j + 1
            else:
                runs.append((i, fr[i], fractions.Fraction(1), 1))
                i += 1
        # loss-free check
        back = []
        for (s, lo, step, cnt) in runs:
            back.extend(lo + k * step for k in _b_range(cnt))
        assert back == fr, "run-length compression is not loss-free"
        self.runs = runs
        self.fr = fr

    # plain list protocol
    def __len__(self):
        return _b_len(self.data)

    def __iter__(self):
        return iter(self.data)

    def __eq__(self, o):
        return self.data == (o.data if isinstance(o, SymList) else o)

    def _scaled(self, x):
        """common decimal scale D and the int term of x at that scale, or None if x is a real-valued Sym"""
        if x.dp is None:
            return None
        dps = [core._dp_of_fraction(f) for f in self.fr]
        if any(d is None for d in dps):
            return None
        D = _b_max([x.dp] + dps)
        return D, x.n * (10 ** (D - x.dp)) if D != x.dp else x.n

    def _member(self, x):
        sc = self._scaled(x)
        terms = []
        if sc is not None:
            D, xn = sc
            for (s, lo, step, cnt) in self.runs:
                lo_n, st_n = int(lo * 10**D), int(step * 10**D)
                if cnt == 1:
                    terms.append(xn == lo_n)
                else:
                    terms.append(z3.And(xn >= lo_n, xn <= lo_n + (cnt - 1) * st_n, (xn - lo_n) % st_n == 0))
            return z3.Or(terms)
        xe = x.r_()
        for (s, lo, step, cnt) in self.runs:
            hi = lo + (cnt - 1) * step
            if cnt == 1:
                terms.append(xe == z3.RealVal(str(lo)))
            else:
                terms.append(z3.And(xe >= z3.RealVal(str(lo)), xe <= z3.RealVal(str(hi)),
                                    z3.IsInt((xe - z3.RealVal(str(lo))) / z3.RealVal(str(step)))))
        return z3.Or(terms)

    def __contains__(self, x):
        if isinstance(x, Sym):
            return core.ctx().decide(self._member(x))
        return x in self.data

    def index(self, x, *a):
        if not isinstance(x, Sym):
            return self.data.index(x, *a)
        c = core.ctx()
        if not c.decide(self._member(x)):
            raise ValueError("symbolic value is not in list")
        idx = z3.FreshInt("idx")
        sc = self._scaled(x)
        terms = []
        for (s, lo, step, cnt) in self.runs:
            if sc is not None:
                D, xn = sc
                terms.append(z3.And(idx >= s, idx < s + cnt, xn == int(lo * 10**D) + (idx - s) * int(step * 10**D)))
            else:
                terms.append(z3.And(idx >= s, idx < s + cnt,
                                    x.r_() == z3.RealVal(str(lo)) + z3.ToReal(idx - s) * z3.RealVal(str(step))))
        c.add(z3.Or(terms))
        return Sym(idx, 0)

    def __getitem__(self, i):
        if not isinstance(i, Sym):
            return self.data[i]
        c = core.ctx()
        n = _b_len(self.data)
        if c.decide(i.e >= n):
            raise IndexError("list index out of range")
        if c.decide(i.e < -n):
            raise IndexError("list index out of range")
        if c.decide(i.e < 0):
            ie = i.e + n
        else:
            ie = i.e
        dps = [core._dp_of_fraction(f) for f in self.fr]
        D = _b_max(dps)
        v = z3.FreshInt("elem")
        terms = []
        for (s, lo, step, cnt) in self.runs:
            terms.append(z3.And(ie >= s, ie < s + cnt, v == int(lo * 10**D) + (ie - s) * int(step * 10**D)))
        c.add(z3.Or(terms))
        return Sym(v, D)


class SymSeq:
    """a sequence of symbolic length supporting only len / slicing (used for utils.chunks)"""

    def __init__(self, lo, hi):
        self.lo = lo  # Sym / int start offset into the base sequence
        self.hi = hi  # Sym / int end offset (exclusive)

    def sym_len(self):
        return self.hi - self.lo

    def __getitem__(self, s):
        if not isinstance(s, slice) or s.step is not None:
            raise Concretization("SymSeq supports only plain slices")
        n = self.sym_len()
        start = 0 if s.start is None else s.start
        stop = n if s.stop is None else s.stop
        # python slice clamping for non-negative bounds
        start = core.smin(core.smax(start, 0), n)
        stop = core.smin(core.smax(stop, start), n)
        return SymSeq(self.lo + start, self.lo + stop)


def s_len(x):
    if isinstance(x, SymSeq):
        return x.sym_len()
    return _b_len(x)


def s_range(*a):
    if not any(isinstance(x, Sym) for x in a):
        return _b_range(*a)
    if len(a) == 1:
        start, stop, step = 0, a[0], 1
    elif len(a) == 2:
        start, stop, step = a[0], a[1], 1
    else:
        start, stop, step = a
    if isinstance(step, Sym) or not step > 0:
        raise Concretization("range step must be a concrete positive int")

    def gen():
        i = start
        while i < stop:  # forks; bounded by the harness' range on the symbolic length
            yield i
            i = i + step

    return gen()


# ---- clock shim for live-mode harnesses -----------------------------------------------------
class ClockShim:
    """stands for the `datetime` module inside flumine modules that read the clock"""

    now = None  # SymTime or real datetime
    local_offset_min = 0  # the process's local UTC offset in minutes (environment): int or Sym; only fromtimestamp() without tz reads it
    timedelta = _dt.timedelta
    date = _dt.date

    class datetime(_dt.datetime):
        @classmethod
        def utcnow(cls):
            return ClockShim.now

        @classmethod
        def now(cls, tz=None):
            return ClockShim.now

        @classmethod
        def fromtimestamp(cls, ts, tz=None):
            """local time of the process when no tz is given: UTC shifted by the (nondeterministic, environment) zone offset"""
            if tz is not None:
                return _dt.datetime.fromtimestamp(ts, tz)
            off = ClockShim.local_offset_min
            base = cls.utcfromtimestamp(ts)
            if isinstance(base, SymTime):
                return SymTime(base.us + (off.n if isinstance(off, Sym) else int(off)) * 60000000)
            return base + _dt.timedelta(minutes=int(off))

        @classmethod
        def utcfromtimestamp(cls, ts):
            if isinstance(ts, Sym):
                # seconds since the epoch (possibly fractional) -> instant in integer microseconds
                us = ts * 1000000
                if us.dp not in (0,):
                    us = core.ctx().round(us, 0)
                return SymTime(us.n)
            return _dt.datetime.utcfromtimestamp(ts)


FLOAT_MODULES = None  # all flumine modules


def _flumine_modules():
    return [m for n, m in list(sys.modules.items()) if (n == "flumine" or n.startswith("flumine.")) and m is not None]


_MISSING = object()


class Installed:
    def __init__(self):
        self.saved = []  # (module, name, old)

    def set(self, mod, name, val):
        old = mod.__dict__.get(name, _MISSING)
        self.saved.append((mod, name, old))
        setattr(mod, name, val)

    def undo(self):
        for mod, name, old in reversed(self.saved):
            if old is _MISSING:
                try:
                    delattr(mod, name)
                except AttributeError:
                    pass
            else:
                setattr(mod, name, old)
        self.saved = []


_ladder_cache = {}


@contextlib.contextmanager
def installed(clock_modules=(), merge_minmax=True):
    """install the symbolic-mode shims; yields the list of shim names used"""
    import flumine.utils as fu

    inst = Installed()
    used = []
    try:
        for m in _flumine_modules():
            inst.set(m, "float", s_float)
            if merge_minmax:
                inst.set(m, "min", s_min)
                inst.set(m, "max", s_max)
        used += ["float=identity-on-Sym (all flumine modules)"]
        if merge_minmax:
            used += ["min/max=ite-merge (all flumine modules)"]
        inst.set(fu, "as_dec", make_as_dec(fu.as_dec))
        inst.set(fu, "len", s_len)
        inst.set(fu, "range", s_range)
        used += ["utils.as_dec=identity-on-Sym", "utils.len/range over SymSeq"]
        for name in ("PRICES", "PRICES_FLOAT", "FINEST_PRICES", "BETDAQ_PRICES", "BETDAQ_PRICES_FLOAT"):
            real = getattr(fu, name)
            key = (name, id(real))
            if key not in _ladder_cache:
                _ladder_cache[key] = SymList(real)
            inst.set(fu, name, _ladder_cache[key])
        used += ["utils.PRICES*/FINEST_PRICES/BETDAQ_PRICES* as SymList over the live lists"]
        for modname in clock_modules:
            mod = sys.modules[modname]
            inst.set(mod, "datetime", ClockShim)
        if clock_modules:
            used += ["datetime -> ClockShim in " + ",".join(clock_modules)]
        yield used
    finally:
        inst.undo()


@contextlib.contextmanager
def clock(clock_modules):
    """clock shim alone (usable in concrete mode too: ClockShim.now is then a real datetime)"""
    inst = Installed()
    try:
        for modname in clock_modules:
            inst.set(sys.modules[modname], "datetime", ClockShim)
        yield
    finally:
        inst.undo()


@contextlib.contextmanager
def env_stubs():
    """environment stubs active in BOTH modes: time.sleep is a no-op inside flumine's retry back-off / paper-trade delays"""
    import time as _time
    import types
    inst = Installed()
    stub = types.SimpleNamespace(sleep=lambda s: None, time=_time.time, perf_counter=_time.perf_counter)
    try:
        for name in ("flumine.order.orderpackage", "flumine.execution.simulatedexecution", "flumine.execution.betdaqexecution"):
            mod = sys.modules.get(name)
            if mod is not None and hasattr(mod, "time"):
                inst.set(mod, "time", stub)
        yield
    finally:
        inst.undo()
