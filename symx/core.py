"""symx: a small dynamic symbolic executor for real Python code over z3.

Symbolic leaves (`Sym`, `SymBool`, `SymEnum`, `SymTime`, ...) are planted inside *real* objects of
the code under analysis; the unmodified byte-code then runs.  Arithmetic builds z3 terms, every
truth-value request (`if`, `and`, `max`, `in` ...) asks the solver which sides are feasible and
forks.  Exploration is depth first by re-execution from a recorded decision prefix.

All modelling decisions are documented in /verif/DESIGN.md section 2.
"""
import time
import decimal
import fractions
import datetime as _dt
import contextlib

import z3

_real_datetime = _dt.datetime  # captured before anything patches datetime.datetime
_real_timedelta = _dt.timedelta
_EPOCH = _real_datetime(1970, 1, 1)


class Concretization(Exception):
    """code needed a concrete value of a symbolic one (hash/int/index ...): run is inconclusive"""


class Infeasible(BaseException):
    """path condition became unsatisfiable (assume failed); BaseException so `except Exception`
    in the code under analysis cannot swallow it"""


class Abort(BaseException):
    """engine budget exhausted / solver unknown inside a decision"""


class HarnessError(Exception):
    pass


_ctx = None  # current Ctx (one per path)


def ctx():
    return _ctx


def _set_ctx(c):
    global _ctx
    _ctx = c


# --------------------------------------------------------------------------------------------
# lifting python values to z3
# --------------------------------------------------------------------------------------------
def _frac(v):
    if isinstance(v, bool):
        return fractions.Fraction(int(v))
    if isinstance(v, int):
        return fractions.Fraction(v)
    if isinstance(v, float):
        # a float literal in the code denotes the decimal it was written as (DESIGN 2.4.1)
        return fractions.Fraction(decimal.Decimal(repr(v)))
    if isinstance(v, decimal.Decimal):
        return fractions.Fraction(v)
    if isinstance(v, fractions.Fraction):
        return v
    return None


MAX_DP = 12


def as_sym(v):
    """python number / Sym -> Sym (scaled-integer constant where the decimal expansion is finite)"""
    if isinstance(v, Sym):
        return v
    f = _frac(v)
    if f is None:
        return None
    dp = _dp_of_fraction(f)
    if dp is not None and dp <= MAX_DP:
        return Sym(z3.IntVal(int(f * 10**dp)), dp)
    return Sym(z3.RealVal(str(f)), None)


def lift(v):
    """python/Sym value -> z3 arithmetic term (Int for integers, Real otherwise), or None if not numeric"""
    s = as_sym(v)
    return None if s is None else s.e


def lift_bool(c):
    if isinstance(c, SymBool):
        return c.e
    if isinstance(c, Sym):
        return c.n != 0
    return z3.BoolVal(bool(c))


def is_sym(v):
    return isinstance(v, (Sym, SymBool, SymEnum, SymTime, SymDelta))


def _toreal(e):
    return z3.ToReal(e) if e.is_int() else e


# --------------------------------------------------------------------------------------------
# symbolic bool
# --------------------------------------------------------------------------------------------
class SymBool:
    __slots__ = ("e",)

    def __init__(self, e):
        self.e = e

    def __bool__(self):
        return _ctx.decide(self.e)

    def __and__(self, o):
        return SymBool(z3.And(self.e, lift_bool(o)))

    __rand__ = __and__

    def __or__(self, o):
        return SymBool(z3.Or(self.e, lift_bool(o)))

    __ror__ = __or__

    def __invert__(self):
        return SymBool(z3.Not(self.e))

    def __eq__(self, o):
        if isinstance(o, (SymBool, bool)):
            return SymBool(self.e == lift_bool(o))
        return NotImplemented

    def __ne__(self, o):
        if isinstance(o, (SymBool, bool)):
            return SymBool(self.e != lift_bool(o))
        return NotImplemented

    def __hash__(self):
        raise Concretization("hash() of a symbolic bool")

    def __repr__(self):
        return "<symbool>"


# --------------------------------------------------------------------------------------------
# symbolic number
# --------------------------------------------------------------------------------------------
def _dp_of_fraction(f):
    """number of decimal places of an exact rational, or None if its expansion is infinite"""
    d = f.denominator
    a = b = 0
    while d % 2 == 0:
        d //= 2
        a += 1
    while d % 5 == 0:
        d //= 5
        b += 1
    if d != 1:
        return None
    return max(a, b)


def dp_of(v):
    """decimal places guaranteed for a value (Sym or python number); None = unknown"""
    if isinstance(v, Sym):
        return v.dp
    f = _frac(v)
    if f is None:
        return None
    return _dp_of_fraction(f)


def _align(a, b):
    """two scaled Syms -> (int term a, int term b, common dp)"""
    d = max(a.dp, b.dp)
    na = a.n if a.dp == d else a.n * (10 ** (d - a.dp))
    nb = b.n if b.dp == d else b.n * (10 ** (d - b.dp))
    return na, nb, d


def _const_int(t):
    return t.as_long() if z3.is_int_value(t) else None


def _arith(a, b, op):
    """a (op) b for op in + - on Syms"""
    if a.dp is not None and b.dp is not None:
        na, nb, d = _align(a, b)
        alts = None
        # keep the finite-alternatives view through +/- with a constant
        if a.alts is not None and _const_int(nb) is not None:
            k, sc = _const_int(nb), 10 ** (d - a.dp)
            alts = [(c, op(v * sc, k)) for c, v in a.alts]
        elif b.alts is not None and _const_int(na) is not None:
            k, sc = _const_int(na), 10 ** (d - b.dp)
            alts = [(c, op(k, v * sc)) for c, v in b.alts]
        return Sym(op(na, nb), d, alts)
    return Sym(op(a.r_(), b.r_()), None)


def _mul(a, b):
    if a.dp is not None and b.dp is not None and a.dp + b.dp <= MAX_DP:
        if b.alts is not None and a.alts is None:
            a, b = b, a
        if a.alts is not None and _const_int(b.n) is None:
            # distribute over the finite alternatives: stays linear in b
            t = a.alts[-1][1] * b.n
            for c, v in reversed(a.alts[:-1]):
                t = z3.If(c, v * b.n, t)
            return Sym(t, a.dp + b.dp)
        return Sym(a.n * b.n, a.dp + b.dp)
    return Sym(a.r_() * b.r_(), None)


def _compare(a, b, op):
    if a.dp is not None and b.dp is not None:
        na, nb, d = _align(a, b)
        return SymBool(op(na, nb))
    return SymBool(op(a.r_(), b.r_()))


def _bin(f, swap=False):
    def g(self, o):
        b = as_sym(o)
        if b is None:
            return NotImplemented
        return f(b, self) if swap else f(self, b)

    return g


class Sym:
    """a symbolic number.  Python float is modelled as an exact decimal rational (DESIGN 2.4.1).
    Representation: if `dp` is not None the value is n / 10**dp with `n` a z3 *Int* term (so money arithmetic
    stays in linear integer arithmetic, which z3 decides orders of magnitude faster than the mixed
    to_real(..)/100 form); otherwise `n` is a z3 Real term (result of a division by a symbolic value ...)."""

    __slots__ = ("n", "dp", "alts")

    def __init__(self, n, dp=None, alts=None):
        if dp is None and n.is_int():
            dp = 0
        self.n = n
        self.dp = dp
        # alts: for a value drawn from a finite set (Ctx.pick): [(z3 condition, python int at scale dp)].
        # A product with such a value is distributed over the alternatives and so stays linear.
        self.alts = alts

    def r_(self):
        """the value as a z3 Real term"""
        if self.dp is None:
            return self.n
        if self.dp == 0:
            return z3.ToReal(self.n)
        return z3.ToReal(self.n) / z3.RealVal(10**self.dp)

    @property
    def e(self):
        """z3 term of the value: Int if integral representation with dp == 0, Real otherwise"""
        return self.n if self.dp == 0 or self.dp is None else self.r_()

    __add__ = _bin(lambda a, b: _arith(a, b, lambda x, y: x + y))
    __radd__ = _bin(lambda a, b: _arith(a, b, lambda x, y: x + y), True)
    __sub__ = _bin(lambda a, b: _arith(a, b, lambda x, y: x - y))
    __rsub__ = _bin(lambda a, b: _arith(a, b, lambda x, y: x - y), True)
    __mul__ = _bin(_mul)
    __rmul__ = _bin(_mul, True)

    def __truediv__(self, o):
        if not isinstance(o, Sym):
            f = _frac(o)
            if f is None:
                return NotImplemented
            if f != 0:
                inv = as_sym(1 / f)
                if inv.dp is not None:
                    return _mul(self, inv)
        b = as_sym(o)
        if b.alts is not None:
            # divisor drawn from a finite set: distribute, each alternative is a division by a constant
            parts = [(c, self / (fractions.Fraction(v, 10 ** b.dp))) for c, v in b.alts]
            r = parts[-1][1]
            for c, x in reversed(parts[:-1]):
                r = ite(SymBool(c), x, r)
            return r
        return Sym(self.r_() / b.r_(), None)

    def __rtruediv__(self, o):
        b = as_sym(o)
        if b is None:
            return NotImplemented
        return b.__truediv__(self)

    def __floordiv__(self, o):
        b = as_sym(o)
        if b is None:
            return NotImplemented
        return Sym(_ctx.floordiv(self.e, b.e))

    def __mod__(self, o):
        """x % m for a positive constant m (Python / Decimal agree for non-negative x; the sign convention of the dividend is
        not modelled: the result is the mathematical remainder in [0, m))"""
        b = as_sym(o)
        if b is None:
            return NotImplemented
        if self.dp is None or b.dp is None or _const_int(b.n) is None:
            raise Concretization("modulo by a non-constant / of a real-valued symbolic number")
        na, nb, d = _align(self, b)
        return Sym(na % nb, d)

    def __neg__(self):
        return Sym(-self.n, self.dp, None if self.alts is None else [(c, -v) for c, v in self.alts])

    def __pos__(self):
        return self

    def __abs__(self):
        return Sym(z3.If(self.n >= 0, self.n, -self.n), self.dp)

    __lt__ = _bin(lambda a, b: _compare(a, b, lambda x, y: x < y))
    __le__ = _bin(lambda a, b: _compare(a, b, lambda x, y: x <= y))
    __gt__ = _bin(lambda a, b: _compare(a, b, lambda x, y: x > y))
    __ge__ = _bin(lambda a, b: _compare(a, b, lambda x, y: x >= y))

    def __eq__(self, o):
        b = as_sym(o)
        if b is None:
            return False
        return _compare(self, b, lambda x, y: x == y)

    def __ne__(self, o):
        b = as_sym(o)
        if b is None:
            return True
        return _compare(self, b, lambda x, y: x != y)

    def __bool__(self):
        return _ctx.decide(self.n != 0)

    def __hash__(self):
        raise Concretization("hash() of a symbolic number")

    def __float__(self):
        raise Concretization("float() of a symbolic number")

    def __int__(self):
        raise Concretization("int() of a symbolic number")

    def __index__(self):
        raise Concretization("__index__ of a symbolic number")

    # formatting is an environment stub (log / error messages only)
    def __str__(self):
        return "<sym>"

    __repr__ = __str__

    def __format__(self, spec):
        return "<sym>"

    def __round__(self, nd=None):
        return _ctx.round(self, nd)

    def quantize(self, exp, rounding=None):
        """Decimal.quantize for the `as_dec` identity shim: only ROUND_HALF_UP to an integer
        exponent is used by flumine (get_nearest_price)"""
        if rounding != decimal.ROUND_HALF_UP:
            raise Concretization("quantize rounding %r not modelled" % (rounding,))
        ex = decimal.Decimal(exp).as_tuple().exponent
        return _ctx.round_half_up(self, -ex)


# --------------------------------------------------------------------------------------------
# finite-domain symbolic value (enum members / strings)
# --------------------------------------------------------------------------------------------
class SymEnum:
    """lazy finite-domain value over concrete Python objects; compares symbolically"""

    __slots__ = ("v", "dom", "name")

    def __init__(self, v, dom, name="?"):
        self.v = v
        self.dom = list(dom)
        self.name = name

    def _idx(self, o):
        for i, d in enumerate(self.dom):
            if d is o or (type(d) is type(o) and d == o):
                return i
        return None

    def __eq__(self, o):
        if isinstance(o, SymEnum):
            terms = []
            for i, d in enumerate(self.dom):
                j = o._idx(d)
                if j is not None:
                    terms.append(z3.And(self.v == i, o.v == j))
            return SymBool(z3.Or(terms) if terms else z3.BoolVal(False))
        i = self._idx(o)
        if i is None:
            return False
        return SymBool(self.v == i)

    def __ne__(self, o):
        r = self.__eq__(o)
        return (not r) if isinstance(r, bool) else SymBool(z3.Not(r.e))

    def __hash__(self):
        raise Concretization("hash() of symbolic enum %s" % self.name)

    def is_in(self, members):
        idx = [self._idx(m) for m in members]
        idx = [i for i in idx if i is not None]
        return SymBool(z3.Or([self.v == i for i in idx]) if idx else z3.BoolVal(False))

    def __bool__(self):
        # truthiness of the member (None / "" are falsy)
        falsy = [i for i, d in enumerate(self.dom) if not d]
        if not falsy:
            return True
        return _ctx.decide(z3.And([self.v != i for i in falsy]))

    def __getattr__(self, item):
        raise Concretization("attribute %r of symbolic enum %s" % (item, self.name))

    def __repr__(self):
        return "<symenum %s>" % self.name

    def concretize(self):
        """eager fork to the concrete member"""
        for i, d in enumerate(self.dom[:-1]):
            if _ctx.decide(self.v == i):
                return d
        return self.dom[-1]


# --------------------------------------------------------------------------------------------
# symbolic time: integer microseconds since the epoch
# --------------------------------------------------------------------------------------------
def _us_of(o):
    """datetime / SymTime -> z3 int term of microseconds since epoch"""
    if isinstance(o, SymTime):
        return o.us
    if isinstance(o, _real_datetime):
        d = o.replace(tzinfo=None) - _EPOCH
        return z3.IntVal(d.days * 86400 * 10**6 + d.seconds * 10**6 + d.microseconds)
    return None


def _delta_us(o):
    if isinstance(o, SymDelta):
        return o.us
    if isinstance(o, _real_timedelta):
        return z3.IntVal(o.days * 86400 * 10**6 + o.seconds * 10**6 + o.microseconds)
    return None


class SymDelta:
    __slots__ = ("us",)

    def __init__(self, us):
        self.us = us

    def total_seconds(self):
        return Sym(self.us, 6)

    def _cmp(op):
        def f(self, o):
            b = _delta_us(o)
            if b is None:
                return NotImplemented
            return SymBool(op(self.us, b))

        return f

    __lt__ = _cmp(lambda a, b: a < b)
    __le__ = _cmp(lambda a, b: a <= b)
    __gt__ = _cmp(lambda a, b: a > b)
    __ge__ = _cmp(lambda a, b: a >= b)
    __eq__ = _cmp(lambda a, b: a == b)
    __ne__ = _cmp(lambda a, b: a != b)

    def __add__(self, o):
        b = _delta_us(o)
        if b is None:
            return NotImplemented
        return SymDelta(self.us + b)

    def __hash__(self):
        raise Concretization("hash() of symbolic timedelta")

    def __bool__(self):
        return _ctx.decide(self.us != 0)

    def __repr__(self):
        return "<symdelta>"


class SymDate:
    __slots__ = ("d",)

    def __init__(self, d):
        self.d = d

    def __eq__(self, o):
        if isinstance(o, SymDate):
            return SymBool(self.d == o.d)
        return NotImplemented

    def __ne__(self, o):
        if isinstance(o, SymDate):
            return SymBool(self.d != o.d)
        return NotImplemented

    def __hash__(self):
        raise Concretization("hash() of symbolic date")


class SymTime:
    """an instant; `us` is a z3 Int (microseconds since the epoch, naive UTC)"""

    __slots__ = ("us",)

    def __init__(self, us):
        self.us = us

    def __sub__(self, o):
        b = _us_of(o)
        if b is not None:
            return SymDelta(self.us - b)
        d = _delta_us(o)
        if d is not None:
            return SymTime(self.us - d)
        return NotImplemented

    def __rsub__(self, o):
        b = _us_of(o)
        if b is not None:
            return SymDelta(b - self.us)
        return NotImplemented

    def __add__(self, o):
        d = _delta_us(o)
        if d is None:
            return NotImplemented
        return SymTime(self.us + d)

    __radd__ = __add__

    def _cmp(op):
        def f(self, o):
            b = _us_of(o)
            if b is None:
                return NotImplemented
            return SymBool(op(self.us, b))

        return f

    __lt__ = _cmp(lambda a, b: a < b)
    __le__ = _cmp(lambda a, b: a <= b)
    __gt__ = _cmp(lambda a, b: a > b)
    __ge__ = _cmp(lambda a, b: a >= b)

    def __eq__(self, o):
        b = _us_of(o)
        if b is None:
            return False
        return SymBool(self.us == b)

    def __ne__(self, o):
        b = _us_of(o)
        if b is None:
            return True
        return SymBool(self.us != b)

    def __hash__(self):
        raise Concretization("hash() of symbolic time")

    def __bool__(self):
        return True

    def __str__(self):
        return "<symtime>"

    __repr__ = __str__

    def __format__(self, spec):
        return "<symtime>"

    def replace(self, **kw):
        if kw == dict(minute=0, second=0, microsecond=0):
            h = _ctx.floordiv(self.us, z3.IntVal(3600 * 10**6))
            return SymTime(h * 3600 * 10**6)
        if kw == dict(tzinfo=None):
            return self
        raise Concretization("SymTime.replace(%r) not modelled" % (kw,))

    def date(self):
        return SymDate(_ctx.floordiv(self.us, z3.IntVal(86400 * 10**6)))

    @property
    def hour(self):
        h = _ctx.floordiv(self.us, z3.IntVal(3600 * 10**6))
        d = _ctx.floordiv(self.us, z3.IntVal(86400 * 10**6))
        return Sym(h - 24 * d)

    def timestamp(self):
        return Sym(self.us, 6)


# --------------------------------------------------------------------------------------------
# oracle helpers (no forking)
# --------------------------------------------------------------------------------------------
def ite(cond, a, b):
    if isinstance(cond, (SymBool, Sym)):
        sa, sb = as_sym(a), as_sym(b)
        if sa is None or sb is None:
            raise HarnessError("ite over non numeric values")
        ce = lift_bool(cond)
        if sa.dp is not None and sb.dp is not None:
            na, nb, d = _align(sa, sb)
            return Sym(z3.If(ce, na, nb), d)
        return Sym(z3.If(ce, sa.r_(), sb.r_()), None)
    return a if cond else b


def _anysym(xs):
    return any(isinstance(x, Sym) for x in xs)


def smin(*xs):
    if len(xs) == 1 and not isinstance(xs[0], Sym):
        xs = tuple(xs[0])
    if not _anysym(xs):
        return min(xs)
    r = as_sym(xs[0])
    for x in xs[1:]:
        x = as_sym(x)
        r = ite(x < r, x, r)
    return r


def smax(*xs):
    if len(xs) == 1 and not isinstance(xs[0], Sym):
        xs = tuple(xs[0])
    if not _anysym(xs):
        return max(xs)
    r = as_sym(xs[0])
    for x in xs[1:]:
        x = as_sym(x)
        r = ite(x > r, x, r)
    return r


def sabs(x):
    return abs(x)


def And(*cs):
    if any(isinstance(c, (SymBool, Sym)) for c in cs):
        return SymBool(z3.And([lift_bool(c) for c in cs]))
    return all(cs)


def Or(*cs):
    if any(isinstance(c, (SymBool, Sym)) for c in cs):
        return SymBool(z3.Or([lift_bool(c) for c in cs]))
    return any(cs)


def Not(c):
    if isinstance(c, (SymBool, Sym)):
        return SymBool(z3.Not(lift_bool(c)))
    return not c


def Implies(a, b):
    if isinstance(a, (SymBool, Sym)) or isinstance(b, (SymBool, Sym)):
        return SymBool(z3.Implies(lift_bool(a), lift_bool(b)))
    return (not a) or bool(b)


def Eq(a, b):
    """equality that never forks and works in both modes"""
    r = a == b
    return r


def close(a, b, tol):
    """|a-b| <= tol without forking"""
    if isinstance(a, Sym) or isinstance(b, Sym) or isinstance(tol, Sym):
        d = as_sym(a) - as_sym(b)
        t = as_sym(tol)
        return And(d <= t, -d <= t)
    return abs(a - b) <= tol + 1e-9


# --------------------------------------------------------------------------------------------
# path context
# --------------------------------------------------------------------------------------------
class Stats:
    def __init__(self):
        self.queries = 0
        self.solver_s = 0.0
        self.unknown = 0
        self.slow = []


class Ctx:
    """symbolic-mode context for one path"""

    mode = "sym"

    def __init__(self, prefix, timeout_ms=10000, stats=None, max_decisions=4000):
        self.prefix = list(prefix)
        self.trace = []
        self.pending = []  # decision prefixes discovered on this path
        self.solver = z3.Solver()
        self.solver.set("timeout", timeout_ms)
        self.stats = stats or Stats()
        self.inputs = {}  # name -> (kind, z3 var, meta)
        self.obligations = []  # (name, SymBool|bool, tags)
        self.observations = []  # (name, value)
        self.covers = []
        self.tags = {}
        self._round_memo = {}
        self._fd_memo = {}
        self._keep = []
        self.ties = []  # z3 bool terms "this rounding is at an exact tie"
        self.max_decisions = max_decisions
        self.notes = []
        # auxiliary (fresh, existentially quantified, total) relations are only given to the solver once a
        # constraint mentions their variable: cone-of-influence activation (sound: the relations are total)
        self.margins = []  # strict versions of the comparisons decided on this path (used to ask for interior models)
        self.aux = {}  # fresh var name -> [constraints, tie term or None, active]
        self._walked = set()

    # --- solver ---
    def check(self, *extra, label=None):
        for e_ in extra:
            self._activate(e_)
        t = time.perf_counter()
        r = self.solver.check(*extra)
        dt = time.perf_counter() - t
        self.stats.queries += 1
        self.stats.solver_s += dt
        if dt > 0.3:
            if label is None:
                import sys
                f = sys._getframe(1)
                while f is not None and "/symx/" in f.f_code.co_filename:
                    f = f.f_back
                label = "%s:%d" % (f.f_code.co_filename.rsplit("/", 1)[-1], f.f_lineno) if f else "?"
            self.stats.slow.append((round(dt, 2), str(r), label))
        return str(r)

    def add(self, *cs):
        for c_ in cs:
            self._activate(c_)
        self.solver.add(*cs)

    def _aux(self, var, constraints, tie=None):
        self.aux[var.decl().name()] = [constraints, tie, False]

    def _activate(self, e):
        if not self.aux:
            return
        stack = [e]
        walked = self._walked
        self._keep.append(e)  # keep the term alive: z3 reuses ast ids of collected terms
        while stack:
            x = stack.pop()
            i = x.get_id()
            if i in walked:
                continue
            walked.add(i)
            if x.num_args() == 0:
                if z3.is_const(x) and x.decl().kind() == z3.Z3_OP_UNINTERPRETED:
                    a = self.aux.get(x.decl().name())
                    if a is not None and not a[2]:
                        a[2] = True
                        self.solver.add(*a[0])
                        if a[1] is not None:
                            self.ties.append(a[1])
                        stack.extend(a[0])
            else:
                stack.extend(x.children())

    def decide(self, cond):
        """truth value of cond on this path.  Trace entries: 1/0 = a real branch (constraint added to the path
        condition), 3/2 = forced True/False (the other side is infeasible, so cond is implied by the path condition
        and is NOT added: keeps non-linear but implied facts such as `a != 0` out of later queries)"""
        i = len(self.trace)
        if i >= self.max_decisions:
            raise Abort("more than %d decisions on one path" % self.max_decisions)
        memo = self.__dict__.setdefault("_dmemo", {})
        if i < len(self.prefix):
            t = self.prefix[i]
            memo[cond.get_id()] = (bool(t & 1), cond)
        else:
            cs = z3.simplify(cond)
            hit = memo.get(cond.get_id())
            if z3.is_true(cs):
                t = 3
            elif z3.is_false(cs):
                t = 2
            elif hit is not None:
                # decided earlier on this path: it (or its negation) is implied by the path condition, which only grows
                t = 3 if hit[0] else 2
            else:
                rt = self.check(cond)
                if rt == "unknown":
                    self.stats.unknown += 1
                    raise Abort("solver unknown in decision")
                if rt == "unsat":
                    t = 2
                else:
                    rf = self.check(z3.Not(cond))
                    if rf == "unknown":
                        self.stats.unknown += 1
                        raise Abort("solver unknown in decision")
                    if rf == "sat":
                        t = 1
                        self.pending.append(self.trace + [0])
                    else:
                        t = 3
        self.trace.append(t)
        d = bool(t & 1)
        memo[cond.get_id()] = (d, cond)
        if t < 2:
            self._activate(cond)
            self.solver.add(cond if d else z3.Not(cond))
            self._margin(cond, d)
        return d

    def _margin(self, cond, d):
        """the strict version of a non-strict comparison that was decided: models that also satisfy these sit in the interior
        of the path (no exposure == limit vertices), where IEEE floats and the exact-decimal model agree"""
        try:
            k = cond.decl().kind()
            if cond.num_args() != 2:
                return
            a, b = cond.arg(0), cond.arg(1)
            if k == z3.Z3_OP_LE:
                self.margins.append(a < b if d else a > b)
            elif k == z3.Z3_OP_GE:
                self.margins.append(a > b if d else a < b)
            elif k == z3.Z3_OP_LT and not d:
                self.margins.append(a > b)
            elif k == z3.Z3_OP_GT and not d:
                self.margins.append(a < b)
        except Exception:  # noqa
            pass

    # --- arithmetic helpers with auxiliary variables ---
    def round(self, x, nd=None):
        """relational round (DESIGN 2.4.2): fresh int k with |10^n x - k| <= 1/2, memoised per term; identity when
        the value already has at most n decimal places"""
        n = nd or 0
        if x.dp is not None and x.dp <= n:
            return x if nd is not None or x.dp == 0 else x
        key = (x.n.get_id(), x.dp, n)
        k = self._round_memo.get(key)
        if k is None:
            k = z3.FreshInt("rk")
            if x.dp is not None and n >= 0:
                m = 10 ** (x.dp - n)  # x = N / 10^dp ; 10^n x = N / m
                d2 = 2 * (x.n - k * m)
                self._aux(k, [d2 <= m, -d2 <= m], z3.Or(d2 == m, -d2 == m))
            else:
                f = fractions.Fraction(10) ** n
                y = x.r_() * z3.RealVal(str(f))
                half = z3.RealVal("1/2")
                kr = z3.ToReal(k)
                self._aux(k, [kr - y <= half, y - kr <= half], z3.Or(kr - y == half, y - kr == half))
            self._keep.append(x.n)
            self._round_memo[key] = k
        if nd is None:
            return Sym(k, 0)
        if n >= 0:
            return Sym(k, n)
        return Sym(k * 10 ** (-n), 0)

    def round_half_up(self, x, n):
        """Decimal ROUND_HALF_UP at n decimal places for non-negative x (flumine only quantizes prices)"""
        if x.dp is not None and x.dp <= n:
            return x
        key = (x.n.get_id(), x.dp, n, "hu")
        k = self._round_memo.get(key)
        if k is None:
            k = z3.FreshInt("hu")
            if x.dp is not None and n >= 0:
                m = 10 ** (x.dp - n)
                y2 = 2 * x.n + m  # 2 * (10^n x + 1/2) * m
                self._aux(k, [2 * k * m <= y2, y2 < 2 * (k + 1) * m])
            else:
                f = fractions.Fraction(10) ** n
                y = x.r_() * z3.RealVal(str(f)) + z3.RealVal("1/2")
                kr = z3.ToReal(k)
                self._aux(k, [kr <= y, y < kr + 1])
            self._keep.append(x.n)
            self._round_memo[key] = k
        if n >= 0:
            return Sym(k, n)
        return Sym(k * 10 ** (-n), 0)

    def floordiv(self, e, d):
        """relational floor division by a positive constant"""
        key = (e.get_id(), d.get_id(), "fd")
        hit = self._fd_memo.get(key)
        if hit is None:
            q = z3.FreshInt("fd")
            if e.is_int() and d.is_int():
                self._aux(q, [q * d <= e, e < (q + 1) * d])
            else:
                self._aux(q, [z3.ToReal(q) * _toreal(d) <= _toreal(e), _toreal(e) < z3.ToReal(q + 1) * _toreal(d)])
            self._keep.append((e, d))
            hit = q
            self._fd_memo[key] = hit
        return hit

    # --- inputs ---
    def _reg(self, name, kind, var, meta=None):
        if name in self.inputs:
            raise HarnessError("duplicate input name %s" % name)
        self.inputs[name] = (kind, var, meta)

    def real(self, name, lo=None, hi=None):
        v = z3.Real(name)
        self._reg(name, "real", v)
        if lo is not None:
            self.solver.add(v >= as_sym(lo).r_())
        if hi is not None:
            self.solver.add(v <= as_sym(hi).r_())
        return Sym(v, None)

    def int(self, name, lo=None, hi=None):
        v = z3.Int(name)
        self._reg(name, "int", v)
        if lo is not None:
            self.solver.add(v >= lo)
        if hi is not None:
            self.solver.add(v <= hi)
        return Sym(v)

    def cents(self, name, lo, hi):
        """a 2dp amount: integer number of cents / 100; lo/hi in cents"""
        v = z3.Int(name)
        self._reg(name, "cents", v)
        self.solver.add(v >= lo, v <= hi)
        return Sym(v, 2)

    def mills(self, name, lo, hi):
        """a 3dp amount (integer thousandths)"""
        v = z3.Int(name)
        self._reg(name, "mills", v)
        self.solver.add(v >= lo, v <= hi)
        return Sym(v, 3)

    def pick(self, name, values):
        """a value drawn from a finite set WITHOUT forking (ite over a selector); products with it are distributed
        over the alternatives and stay linear"""
        vals = [as_sym(v) for v in values]
        d = max(x.dp for x in vals)
        ints = [_const_int(x.n) * 10 ** (d - x.dp) for x in vals]
        v = z3.Int(name)
        self._reg(name, "pick", v, [repr(x) for x in values])
        self.solver.add(v >= 0, v < len(ints))
        alts = [(v == i, k) for i, k in enumerate(ints)]
        t = z3.IntVal(ints[-1])
        for c_, k in reversed(alts[:-1]):
            t = z3.If(c_, z3.IntVal(k), t)
        return Sym(t, d, alts)

    def boolean(self, name):
        """eagerly forked boolean"""
        v = z3.Bool(name)
        self._reg(name, "bool", v)
        return self.decide(v)

    def symbool(self, name):
        v = z3.Bool(name)
        self._reg(name, "bool", v)
        return SymBool(v)

    def choose(self, name, options):
        """eager n-way fork over concrete python objects"""
        options = list(options)
        v = z3.Int(name)
        self._reg(name, "choice", v, [repr(o) for o in options])
        self.solver.add(v >= 0, v < len(options))
        for i in range(len(options) - 1):
            if self.decide(v == i):
                return options[i]
        return options[-1]

    def enum(self, name, dom):
        dom = list(dom)
        v = z3.Int(name)
        self._reg(name, "enum", v, [repr(o) for o in dom])
        self.solver.add(v >= 0, v < len(dom))
        return SymEnum(v, dom, name)

    def time_us(self, name, lo=None, hi=None):
        v = z3.Int(name)
        self._reg(name, "time_us", v)
        if lo is not None:
            self.solver.add(v >= lo)
        if hi is not None:
            self.solver.add(v <= hi)
        return SymTime(v)

    def time_ms(self, name, lo=None, hi=None):
        """an instant with millisecond resolution; returns (SymTime, epoch-ms Sym)"""
        v = z3.Int(name)
        self._reg(name, "time_ms", v)
        if lo is not None:
            self.solver.add(v >= lo)
        if hi is not None:
            self.solver.add(v <= hi)
        return SymTime(v * 1000), Sym(v)

    # --- assumptions / obligations / witnesses ---
    def assume(self, c):
        if isinstance(c, (SymBool, Sym)):
            self.add(lift_bool(c))
            r = self.check()
            if r == "unknown":
                self.stats.unknown += 1
                raise Abort("solver unknown in assume")
            if r != "sat":
                raise Infeasible()
        elif not c:
            raise Infeasible()

    def ob(self, name, cond, **tags):
        self.obligations.append((name, cond, dict(self.tags, **tags)))

    def observe(self, name, value):
        self.observations.append((name, value))

    def cover(self, label):
        self.covers.append(label)

    def tag(self, key, value):
        self.tags[key] = value

    def note(self, s):
        self.notes.append(s)

    def external_queries(self, n, nontrivial=0, secs=0.0):
        """solver queries a harness posed itself (string theory, C19): counted in the evidence"""
        self.stats.queries += n
        self.stats.solver_s += secs
        self.extra_nontrivial = getattr(self, "extra_nontrivial", 0) + nontrivial

    @contextlib.contextmanager
    def guard(self, label):
        """an exception escaping the guarded real-code call is an obligation failure"""
        try:
            yield
        except (Concretization, HarnessError):
            raise
        except Exception as e:  # noqa
            self.ob("no-exception:%s" % label, False, exception=type(e).__name__)
            self.tags["exception"] = "%s: %s" % (type(e).__name__, str(e)[:200])
            raise GuardTripped()

    # both-mode helpers
    ite = staticmethod(ite)
    smin = staticmethod(smin)
    smax = staticmethod(smax)
    And = staticmethod(And)
    Or = staticmethod(Or)
    Not = staticmethod(Not)
    Implies = staticmethod(Implies)
    close = staticmethod(close)

    def is_true(self, cond):
        """decide a condition (forks) - for harness control flow"""
        return bool(cond)


class GuardTripped(Exception):
    """raised by Ctx.guard after recording the failed obligation; harness should stop the path"""


# --------------------------------------------------------------------------------------------
# concrete mode: same harness, plain python values, untouched code, no shims
# --------------------------------------------------------------------------------------------
class ConcreteCtx:
    mode = "conc"

    def __init__(self, values):
        self.values = values
        self.obligations = []
        self.observations = []
        self.covers = []
        self.tags = {}
        self.notes = []

    def _get(self, name):
        if name not in self.values:
            raise KeyError("concrete replay: input %s has no value" % name)
        return self.values[name]

    def real(self, name, lo=None, hi=None):
        return float(fractions.Fraction(self._get(name)))

    def int(self, name, lo=None, hi=None):
        return int(self._get(name))

    def cents(self, name, lo, hi):
        return int(self._get(name)) / 100

    def mills(self, name, lo, hi):
        return int(self._get(name)) / 1000

    def boolean(self, name):
        return bool(self._get(name))

    symbool = boolean

    def pick(self, name, values):
        return list(values)[int(self._get(name))]

    def choose(self, name, options):
        return list(options)[int(self._get(name))]

    def enum(self, name, dom):
        return list(dom)[int(self._get(name))]

    def time_us(self, name, lo=None, hi=None):
        return _EPOCH + _real_timedelta(microseconds=int(self._get(name)))

    def time_ms(self, name, lo=None, hi=None):
        ms = int(self._get(name))
        return _EPOCH + _real_timedelta(milliseconds=ms), ms

    def assume(self, c):
        # concrete inputs come from a model that satisfies every assumption in exact arithmetic; re-evaluating them on
        # floats could only add float noise (0.05 + 0.01 <= 0.06 is False in binary floating point)
        return

    def ob(self, name, cond, **tags):
        self.obligations.append((name, bool(cond), dict(self.tags, **tags)))

    def observe(self, name, value):
        self.observations.append((name, value))

    def cover(self, label):
        self.covers.append(label)

    def tag(self, key, value):
        self.tags[key] = value

    def note(self, s):
        self.notes.append(s)

    def external_queries(self, n, nontrivial=0, secs=0.0):
        pass

    @contextlib.contextmanager
    def guard(self, label):
        try:
            yield
        except HarnessError:
            raise
        except Exception as e:  # noqa
            self.ob("no-exception:%s" % label, False, exception=type(e).__name__)
            self.tags["exception"] = "%s: %s" % (type(e).__name__, str(e)[:200])
            raise GuardTripped()

    ite = staticmethod(ite)
    smin = staticmethod(smin)
    smax = staticmethod(smax)
    And = staticmethod(And)
    Or = staticmethod(Or)
    Not = staticmethod(Not)
    Implies = staticmethod(Implies)
    close = staticmethod(close)

    def is_true(self, cond):
        return bool(cond)


def model_values(ctx_, model):
    """z3 model -> {input name: python value (int / 'p/q' string / bool)}"""
    out = {}
    for name, (kind, var, meta) in ctx_.inputs.items():
        v = model.eval(var, model_completion=True)
        if kind == "bool":
            out[name] = bool(z3.is_true(v))
        elif kind == "real":
            out[name] = str(v.as_fraction()) if z3.is_rational_value(v) else str(v)
        else:
            out[name] = v.as_long()
    return out


def describe_values(ctx_, values):
    """human-readable rendering of an input valuation"""
    out = {}
    for name, (kind, var, meta) in ctx_.inputs.items():
        v = values.get(name)
        if kind in ("choice", "enum", "pick") and meta is not None and v is not None:
            out[name] = meta[int(v)]
        elif kind == "cents":
            out[name] = "%.2f" % (int(v) / 100)
        elif kind == "mills":
            out[name] = "%.3f" % (int(v) / 1000)
        elif kind == "real":
            out[name] = "%s (=%.6f)" % (v, float(fractions.Fraction(v)))
        else:
            out[name] = v
    return out


def eval_value(model, value):
    """evaluate an observed (possibly symbolic) value under a model -> python value"""
    if isinstance(value, Sym):
        v = model.eval(value.e, model_completion=True)
        if z3.is_int_value(v):
            return v.as_long()
        if z3.is_rational_value(v):
            return float(v.as_fraction())
        if z3.is_algebraic_value(v):
            return float(v.approx(12).as_fraction())
        return None
    if isinstance(value, SymBool):
        return bool(z3.is_true(model.eval(value.e, model_completion=True)))
    if isinstance(value, SymEnum):
        return value.dom[model.eval(value.v, model_completion=True).as_long()]
    if isinstance(value, SymTime):
        return model.eval(value.us, model_completion=True).as_long()
    if isinstance(value, (list, tuple)):
        return [eval_value(model, x) for x in value]
    return value
