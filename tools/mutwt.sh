#!/bin/sh
# tools/mutwt.sh <seed-name> <Cxx> [extra ./check args]  : run one check against a seeded change in its own scratch worktree (never /repo)
N="$1"; ID="$2"; shift 2
WT=/tmp/mw_$N; rm -rf "$WT"; git -C /repo worktree prune
git -C /repo worktree add --detach "$WT" HEAD -q || exit 2
git -C "$WT" apply "/verif/seeded/$N/patch.diff" || { echo "patch does not apply"; git -C /repo worktree remove --force "$WT"; exit 3; }
VERIF_REPO="$WT" VERIF_EVIDENCE_DIR=/tmp/mw_ev_$N VERIF_REPLAY_DIR=/tmp/mw_rp_$N VERIF_WORKERS=${MW_WORKERS:-6} ./check "$ID" "$@" > /tmp/mw_$N.log 2>&1; rc=$?
echo "== $N vs $ID rc=$rc : $(grep -c '^VIOLATION' /tmp/mw_$N.log) violation line(s)"
grep -A2 '^VIOLATION' /tmp/mw_$N.log | head -${MUTLINES:-6}
grep -E 'INCONCLUSIVE|Traceback|Error' /tmp/mw_$N.log | head -3
git -C /repo worktree remove --force "$WT"; rm -rf /tmp/mw_ev_$N /tmp/mw_rp_$N
