#!/bin/sh
# tools/confirm_seed.sh <Cxx> <variant>   : confirm an agent-produced change in a scratch worktree and store it under seeded/
ID="$1"; V="$2"; SRC="${SRCROOT:-/tmp/wt/out}/$ID/$V"; WT=/tmp/wt/confirm_$ID$V
[ -f "$SRC/patch.diff" ] || { echo "no patch"; exit 2; }
git -C /repo worktree add --detach "$WT" HEAD -q || exit 2
cd "$WT"
PYTHONPATH="$WT" timeout 300 /venv/bin/python "$SRC/demo.py" >/tmp/confirm_demo0.log 2>&1; D0=$?
git apply "$SRC/patch.diff" || { echo "patch does not apply"; cd /; git -C /repo worktree remove --force "$WT"; exit 3; }
T=$(/venv/bin/python -m pytest -q -p no:cacheprovider --timeout=900 2>&1 | tail -1)
PYTHONPATH="$WT" timeout 300 /venv/bin/python "$SRC/demo.py" >/tmp/confirm_demo1.log 2>&1; D1=$?
cd /; git -C /repo worktree remove --force "$WT"
echo "$ID/$V: demo clean rc=$D0, tests with change: $T, demo with change rc=$D1"
case "$T" in *"5 failed, 976 passed"*) OK=1;; *) OK=0;; esac
if [ "$D0" = 0 ] && [ "$D1" != 0 ] && [ "$OK" = 1 ]; then
  DEST=/verif/seeded/$ID$V; mkdir -p "$DEST"; cp "$SRC/patch.diff" "$SRC/demo.py" "$DEST/"
  /venv/bin/python - "$SRC/meta.json" "$DEST/meta.json" "$T" "$D0" "$D1" <<'PY'
import json,sys
m=json.load(open(sys.argv[1]))
m["confirmed"]={"tests_with_change":sys.argv[3],"demo_rc_clean_tree":int(sys.argv[4]),"demo_rc_with_change":int(sys.argv[5]),
 "how":"tools/confirm_seed.sh: fresh scratch worktree of /repo HEAD; demo on clean tree; git apply; full pytest; demo again; worktree removed"}
json.dump(m,open(sys.argv[2],"w"),indent=1)
PY
  echo "  stored in $DEST"
else
  echo "  NOT CONFIRMED"
fi
