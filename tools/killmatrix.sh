#!/bin/sh
# tools/killmatrix.sh [tier]  : run every seeded change against the check of its property in a scratch worktree (never in /repo)
TIER="${1:-quick}"
FILTER="${2:-C*}"
WT="${KM_WT:-/tmp/km_repo}"
OUT="${KM_OUT:-/verif/seeded/KILLMATRIX_$TIER.tsv}"
rm -rf "$WT"; git -C /repo worktree prune; git -C /repo worktree add --detach "$WT" HEAD -q || exit 2
: > "$OUT"
for d in /verif/seeded/$FILTER/; do
  name=$(basename "$d"); pid=$(echo "$name" | cut -c1-3)
  [ -f "$d/patch.diff" ] || continue
  if ! git -C "$WT" apply "$d/patch.diff" 2>/dev/null; then echo "$name	$pid	patch-does-not-apply	-" >> "$OUT"; continue; fi
  VERIF_REPO="$WT" VERIF_EVIDENCE_DIR="$WT.ev" VERIF_REPLAY_DIR="$WT.replays" VERIF_WORKERS=${KM_WORKERS:-8} ./check "$pid" --tier "$TIER" > "$WT.$name.log" 2>&1; rc=$?
  first=$(grep -A1 '^VIOLATION' "$WT.$name.log" | sed -n 2p | sed 's/^ *//' | cut -c1-160)
  echo "$name	$pid	rc=$rc	$first" >> "$OUT"
  git -C "$WT" checkout -- . ; git -C "$WT" clean -fdq
done
git -C /repo worktree remove --force "$WT"
rm -rf "$WT.ev" "$WT.replays"
cat "$OUT"
