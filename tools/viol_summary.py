#!/usr/bin/env python3
import json,glob,sys,collections,re
pid=sys.argv[1]
keys=sys.argv[2:] or ["kind","meanwhile","api_error"]
cnt=collections.Counter(); ex={}
for f in sorted(glob.glob("/verif/replays/%s-*.json"%pid)):
    d=json.load(open(f)); t=d.get("tags") or {}
    ob=re.sub(r"\d+","#",d["obligation"])
    k=(d["harness"],ob)+tuple(str(t.get(x)) for x in keys)
    cnt[k]+=1; ex.setdefault(k,(f,d.get("inputs")))
for k,n in sorted(cnt.items()): print(n,k, ex[k][0])
