#!/bin/sh
# tools/kill1.sh <seed-name> [harness]  : apply one stored seeded change in its own scratch worktree and run the quick check of its property
name=$1; pid=$(echo $name | cut -c1-3); WT=/tmp/k1_$name
git -C /repo worktree add --detach $WT HEAD -q || exit 2
git -C $WT apply /verif/seeded/$name/patch.diff || { git -C /repo worktree remove --force $WT; echo "$name patch-does-not-apply"; exit 3; }
cd /verif
VERIF_REPO=$WT VERIF_EVIDENCE_DIR=$WT.ev VERIF_REPLAY_DIR=$WT.replays VERIF_WORKERS=${KM_WORKERS:-4} ./check $pid ${2:+--only $2} > /tmp/k1_$name.log 2>&1; rc=$?
echo "$name	rc=$rc	$(grep -A1 '^VIOLATION' /tmp/k1_$name.log | sed -n 2p | sed 's/^ *//' | cut -c1-170)"
git -C /repo worktree remove --force $WT; rm -rf $WT.ev $WT.replays
