#!/bin/sh
# tools/mutcheck.sh <patch.diff> <Cxx> [more ids]  : apply a seeded change to /repo, run the quick checks, revert
P="$(realpath "$1")"; shift
git -C /repo apply "$P" || { echo "patch does not apply"; exit 3; }
for id in "$@"; do
  ./check "$id" > /tmp/mut_$id.log 2>&1; rc=$?
  echo "== $id rc=$rc : $(grep -c '^VIOLATION' /tmp/mut_$id.log) violation line(s)"
  grep -A2 '^VIOLATION' /tmp/mut_$id.log | head -${MUTLINES:-9}
  grep 'INCONCLUSIVE' /tmp/mut_$id.log | head -3
done
git -C /repo checkout -- .
git -C /repo status --short | head -3
