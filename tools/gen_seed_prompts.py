#!/usr/bin/env python3
"""tools/gen_seed_prompts.py <round-dir> <variant1> <variant2> : write one prompt per property for fresh bug-injection agents
(they get the property text and their own scratch worktree, nothing from /verif) and create the worktrees"""
import json, sys, os, glob, subprocess
root, v1, v2 = sys.argv[1], sys.argv[2], sys.argv[3]
os.makedirs(root + "/prompts", exist_ok=True)
os.makedirs(root + "/out", exist_ok=True)
tmpl = open(os.path.join(os.path.dirname(__file__), "seed_prompt.tmpl")).read()
for line in open("/verif/properties.jsonl"):
    p = json.loads(line)
    pid = p["id"]
    wt = "%s/%s" % (root, pid)
    if not os.path.isdir(wt):
        subprocess.check_call(["git", "-C", "/repo", "worktree", "add", "--detach", wt, "HEAD", "-q"])
    earlier = []
    for d in sorted(glob.glob("/verif/seeded/%s*/meta.json" % pid)):
        m = json.load(open(d))
        earlier.append("- (%s) %s" % (", ".join(m.get("files_changed", []))[:80], str(m.get("summary", ""))[:330]))
    txt = (tmpl.replace("@WT@", wt).replace("@OUT@", "%s/out/%s" % (root, pid)).replace("@PID@", pid).replace("@TITLE@", p["title"])
           .replace("@STATEMENT@", p["statement"]).replace("@QUANT@", p["quantifier"]["text"]).replace("@FILES@", ", ".join(p["anchors"]["files"]))
           .replace("@EARLIER@", "\n".join(earlier)).replace("@V1@", v1).replace("@V2@", v2))
    open("%s/prompts/%s.txt" % (root, pid), "w").write(txt)
    os.makedirs("%s/out/%s" % (root, pid), exist_ok=True)
print("prompts in", root + "/prompts")
