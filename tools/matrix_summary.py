#!/usr/bin/env python3
"""tools/matrix_summary.py <tsv> [<tsv> ...] : caught / not caught per kill-matrix table"""
import sys
tot = caught = 0
missed = []
for f in sys.argv[1:]:
    for line in open(f):
        p = line.rstrip("\n").split("\t")
        if len(p) < 3:
            continue
        tot += 1
        if p[2] == "rc=1":
            caught += 1
        else:
            missed.append("%s(%s)" % (p[0], p[2]))
print("%d of %d reported as VIOLATION by the check of their own property" % (caught, tot))
print("others:", " ".join(missed))
