#!/usr/bin/env python3
"""regenerate /verif/MANIFEST.json from the table below (keeps it schema-valid at all times)"""
import json, os, sys
VERIF = os.path.dirname(os.path.dirname(os.path.abspath(__file__)))
TECH = "bounded symbolic execution of the real code (symx proxies) + SMT (z3); counterexamples replayed on the untouched code"
NOTE_COMMON = ("Trusted: z3 5.1.0, CPython, the symx engine and the harness oracles. Model: Python float = exact decimal rational, "
               "round() relational (both neighbours admitted at exact ties), int = z3 Int; IEEE-754 rounding of + - * / is not modelled "
               "(every counterexample is replayed with real floats before it is reported). Bounds and 'outside the claim' lists are in "
               "DESIGN.md section 4 and are echoed into the evidence file by each run.")
CLAIMS = {
    # id: (text, design_ref, extra note)
}
PENDING_REASON = "check not built yet in this round (harness under construction); see DESIGN.md section 4 for the planned solver-based harness"

def load_claims():
    p = os.path.join(VERIF, "tools", "claims.json")
    return json.load(open(p)) if os.path.exists(p) else {}

def main():
    claims = load_claims()
    props = [json.loads(l) for l in open(os.path.join(VERIF, "properties.jsonl"))]
    checks, na = [], []
    for p in props:
        pid = p["id"]
        c = claims.get(pid)
        if c and c.get("claimed", True):
            checks.append({
                "property_id": pid,
                "quick_cmd": "./check %s" % pid,
                "thorough_cmd": "./check %s --tier thorough" % pid,
                "evidence_file": "/verif/evidence/%s.json" % pid,
                "replay_cmd_template": "./check %s --replay {path}" % pid,
                "engine": "symx",
                "level_claimed": {"category": "other", "text": c["text"], "design_ref": c.get("design_ref", "DESIGN.md section 4 (%s)" % pid)},
                "level_note": NOTE_COMMON + (" " + c["note"] if c.get("note") else ""),
                "technique": c.get("technique", TECH),
            })
        else:
            na.append({"property_id": pid, "reason": (c or {}).get("reason", PENDING_REASON)})
    m = {
        "version": 1,
        "setup_cmd": "./setup.sh",
        "hooks": {"guard": "BETCODE_ORG_FLUMINE_VERIF", "enable": "no source hooks: all instrumentation is monkey-patching inside the checker process (BETCODE_ORG_FLUMINE_VERIF=1 is exported by ./check but read by nothing in /repo)",
                  "baseline_off_cmd": "cd /repo && /venv/bin/python -m pytest -ra -q -p no:cacheprovider --timeout=900 --continue-on-collection-errors",
                  "source_commits": [], "add_only": True},
        "engines": [{"name": "symx", "path": "/verif/symx", "serves_properties": [c["property_id"] for c in checks],
                     "kind_free_text": "dynamic symbolic executor for Python (operator-overloading proxies over z3 terms planted in real flumine objects; DFS by re-execution; 16-process pool)"}],
        "checks": checks,
        "not_applicable": na,
        "notes": "One entry point: ./check <id> [--tier quick|thorough] [--replay <path>]. Exit 0 = all obligations discharged on all explored paths (only KNOWN-FINDING lines allowed), 1 = reproduced violation not listed in known_findings.json, 2 = inconclusive/harness error (never a pass). VERIF_REPO=<dir> points the checks at a scratch copy of the repository.",
    }
    json.dump(m, open(os.path.join(VERIF, "MANIFEST.json"), "w"), indent=1)
    try:
        import jsonschema
        jsonschema.validate(m, json.load(open("/root/.vp/MANIFEST.schema.json")))
        print("MANIFEST.json valid: %d checks, %d not_applicable" % (len(checks), len(na)))
    except ImportError:
        print("MANIFEST.json written (jsonschema not available to validate)")

main()
